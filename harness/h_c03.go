//go:build verif || verifreplay

package kvql

// C03 — row-at-a-time and batch iteration give the same result at any batch size.
// The oracles of C01, C05, C07, C08, C09, C11 already compare both modes with a reference; this
// harness covers statements for which no reference exists (every scalar function, list and
// JSON values, indexing) and asserts only mode agreement.

type vC03Stmt struct {
	q      string
	valpha string
	vmin   int
	vmax   int
	vals   []string // concrete values instead of symbolic ones (JSON documents)
}

var vC03Stmts = []vC03Stmt{
	{"select key, substr(value, 0, 1) where key >= ''", "ab", 0, 2, nil},
	{"select key, substr(value, 1, 2) where key >= ''", "ab", 0, 3, nil},
	{"select key, split(value, ',') where key >= ''", "a,", 0, 3, nil},
	{"select key where 'a' in split(value, ',')", "a,", 0, 3, nil},
	{"select key, split(value, ',')[1] where key >= ''", "a,", 0, 3, nil},
	{"select key, list(1, 2, 3)[1] where key >= ''", "ab", 1, 1, nil},
	{"select key, int_list(1, int(value))[1] where key >= ''", "012", 1, 1, nil},
	{"select key, float_list(1, 2)[0] where key >= ''", "ab", 1, 1, nil},
	{"select key, len(list(1, int(value))) where key >= ''", "012", 1, 1, nil},
	{"select key, join(',', key, value, upper(value)) where key >= ''", "ab", 0, 2, nil},
	{"select key, int_list(int(value), 2) where key >= ''", "012", 1, 2, nil},
	{"select key, float_list(1, 2) where key >= ''", "ab", 1, 1, nil},
	{"select key, list(int(value), 7) where key >= ''", "012", 1, 1, nil},
	{"select key, l2_distance(list(1, 2), list(int(value), 4)) where key >= ''", "012", 1, 1, nil},
	{"select key, cosine_distance(list(1, 2), list(3, int(value))) where key >= ''", "12", 1, 1, nil},
	{"select key, upper(value), lower(key), strlen(value + key) where key >= ''", "aB", 0, 2, nil},
	{"select key, str(int(value) + 1), is_int(value), is_float(value), float(value) where key >= ''", "019", 1, 2, nil},
	{"select key, int(value) / 2, int(value) * 3 - 1 where int(value) > 0", "019", 1, 2, nil},
	{"select key, value where value ^= 'a' | key in ('a', 'b') & !(value = 'b')", "ab", 0, 2, nil},
	{"select key, json(value)['a'] where key >= ''", "", 0, 0, []string{`{"a":1}`, `{"a":"x","b":[1,2]}`, `[1]`}},
	{"select key, json(value)['b'][1] where key >= ''", "", 0, 0, []string{`{"a":1}`, `{"a":"x","b":[1,2]}`, `x`}},
	{"select key where json(value)['a'] = 'x'", "", 0, 0, []string{`{"a":"y"}`, `{"a":"x","b":[1,2]}`, `{}`}},
	{"select key, value where key between 'a' and 'b' limit 1, 2", "ab", 1, 1, nil},
	{"select key, int(value) as n where n > 0 order by n desc limit 2", "012", 1, 1, nil},
	{"select value, count(1), group_concat(key, '-') where key >= '' group by value order by value desc", "ab", 1, 1, nil},
	{"select key, value where value ~= '^a'", "", 0, 0, []string{"ab", "ba", "a"}},
	// operands that depend on the row on both sides of every operator family
	{"select key where value between key and 'b'", "abc", 1, 1, nil},
	{"select key where key between value and value + 'z'", "abc", 1, 1, nil},
	{"select key, upper(value) as u where u between upper(key) and 'C'", "abc", 1, 1, nil},
	{"select key where int(value) between strlen(key) and int(value) + 1", "012", 1, 1, nil},
	{"select key where value in (key, 'a', upper(key))", "abA", 1, 1, nil},
	{"select key where int(value) in (strlen(key), int(value) - 1, 2)", "012", 1, 1, nil},
	{"select key where key < value | value ^= key", "abc", 0, 2, nil},
	{"select key where key + value = value + key & strlen(key) <= strlen(value)", "abc", 0, 2, nil},
	{"select key, int(value) / strlen(value), int(value) * strlen(key) where key >= ''", "012", 1, 2, nil},
	{"select key where !(value = key) and (value != 'a' or key != 'b')", "abc", 1, 1, nil},
	// list() chooses between an integer and a float list by its first argument: rows of both kinds in one chunk
	{"select key, list(value) where key >= ''", "1.5", 1, 2, nil},
	{"select key, list(value, 2)[0], len(list(value)) where key >= ''", "1.5", 1, 2, nil},
	{"select key where 2 in list(value, 2)", "1.5", 1, 2, nil},
}

func VN_C03(tier int) int { return len(vC03Stmts) }

// vValEq: structural equality of result values incl. lists and JSON.
func vValEq(a, b any) bool {
	switch x := a.(type) {
	case []string:
		y, ok := b.([]string)
		if !ok || len(x) != len(y) {
			return false
		}
		r := true
		for i := range x {
			r = vAnd(r, x[i] == y[i])
		}
		return r
	case []int64:
		y, ok := b.([]int64)
		if !ok || len(x) != len(y) {
			return false
		}
		r := true
		for i := range x {
			r = vAnd(r, x[i] == y[i])
		}
		return r
	case []float64:
		y, ok := b.([]float64)
		if !ok || len(x) != len(y) {
			return false
		}
		r := true
		for i := range x {
			r = vAnd(r, x[i] == y[i])
		}
		return r
	case []any:
		y, ok := b.([]any)
		if !ok || len(x) != len(y) {
			return false
		}
		r := true
		for i := range x {
			r = vAnd(r, vValEq(x[i], y[i]))
		}
		return r
	case map[string]any:
		y, ok := b.(map[string]any)
		if !ok || len(x) != len(y) {
			return false
		}
		r := true
		for k, xv := range x {
			yv, have := y[k]
			if !have {
				return false
			}
			r = vAnd(r, vValEq(xv, yv))
		}
		return r
	case JSON:
		y, ok := b.(JSON)
		if !ok {
			return false
		}
		return vValEq(map[string]any(x), map[string]any(y))
	}
	return vColEq(a, b)
}

func vRowsEqDeep(a, b [][]Column) bool {
	if len(a) != len(b) {
		return false
	}
	r := true
	for i := range a {
		if len(a[i]) != len(b[i]) {
			return false
		}
		for j := range a[i] {
			r = vAnd(r, vValEq(a[i][j], b[i][j]))
		}
	}
	return r
}

func VH_C03(si, n, B int) {
	s := vC03Stmts[si]
	var st *vStore
	if s.vals != nil {
		keys := make([][]byte, 0, n)
		vals := make([][]byte, 0, n)
		for i := 0; i < n && i < len(s.vals); i++ {
			keys = append(keys, []byte{byte('a' + i)})
			vals = append(vals, []byte(s.vals[i]))
		}
		st = vNewStoreFrom(keys, vals)
	} else {
		st = vSymStore(n, 1, 1, s.vmin, s.vmax, "abc", s.valpha)
	}
	PlanBatchSize = B
	pb, err := NewOptimizer(s.q).BuildPlan(st.clone())
	if err != nil {
		vCover("rejected")
		return
	}
	rb := vDrainBatch(pb, n+1)
	pn, err := NewOptimizer(s.q).BuildPlan(st.clone())
	vAssert(err == nil, "C03/second-build-rejected")
	rn := vDrainNext(pn, n+1)
	if rb.err != nil {
		vCover("batch-error")
		return
	}
	vAssert(rn.err == nil, "C03/row-mode-fails-where-batch-mode-completes")
	vAssert(vRowsEqDeep(rn.rows, rb.rows), "C03/row-and-batch-results-differ")
	vCover("modes-compared")
}

// Aggregated statements over more groups than the batch size, with LIMIT handled inside the
// aggregate plan (no ORDER BY) and behind an order plan: both modes must agree.
var vC03AggStmts = []string{
	"select value, count(1) where key >= '' group by value limit 3",
	"select value, count(1) where key >= '' group by value limit 1, 3",
	"select value, count(1), max(key) where key >= '' group by value limit 2, 2",
	"select value, count(1) where key >= '' group by value",
	"select value, group_concat(key, ',') where key >= '' group by value order by value desc limit 3",
	"select value, strlen(key) as l, count(1) where key >= '' group by value, l limit 4",
	"select count(1), min(value), max(value) where key >= '' limit 1",
	"select value, sum(strlen(key)), avg(strlen(value)) where key ^= 'a' group by value limit 5",
}

func VN_C03_AGG(tier int) int { return len(vC03AggStmts) }

func VH_C03_AGG(si, n, B int) {
	q := vC03AggStmts[si]
	keys := make([][]byte, n)
	vals := make([][]byte, n)
	for i := 0; i < n; i++ {
		keys[i] = []byte{'a', byte('0' + i)}
		vals[i] = vNondetBytes("v"+vItoa(i), 1, 1, "abcde"[:n])
	}
	st := vNewStoreFrom(keys, vals)
	PlanBatchSize = B
	pb, err := NewOptimizer(q).BuildPlan(st.clone())
	vAssert(err == nil, "harness/C03-AGG-rejected")
	rb := vDrainBatch(pb, n+1)
	pn, err := NewOptimizer(q).BuildPlan(st.clone())
	vAssert(err == nil, "C03/second-build-rejected")
	rn := vDrainNext(pn, n+1)
	if rb.err != nil {
		vCover("batch-error")
		return
	}
	vAssert(rn.err == nil, "C03/row-mode-fails-where-batch-mode-completes")
	vAssert(vRowsEqDeep(rn.rows, rb.rows), "C03/row-and-batch-results-differ")
	vCover("modes-compared")
}
