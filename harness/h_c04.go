//go:build verif || verifreplay

package kvql

// C04 — constant folding and expression rewriting preserve every expression's value and kind.
// Lemma level: the shape is parsed twice by the real parser/checker; the literal nodes of both
// trees are overwritten with the same symbolic values; one tree is rewritten by
// ExpressionOptimizer; both are executed (Execute and ExecuteBatch) on a symbolic pair.

type vC04Shape struct {
	text  string // expression text (WHERE-less: used as a select field)
	kinds string // one letter per literal in traversal order (see vOverwrite)
}

// literal kinds: i free int64 · p pool int (concrete choice) · z non-zero pool int · f pool float
// (symbolic index) · s text with symbolic bytes · d digit 0..9 (symbolic) · k keep as parsed
var vC04Shapes = []vC04Shape{
	{"1 + 2", "ii"}, {"1 - 2", "ii"}, {"1 * 2", "ip"}, {"2 * 1", "pi"}, {"1 / 2", "iz"},
	{"3 * 0.5", "pf"}, {"0.5 * 3", "fp"}, {"3 + 0.5", "pf"}, {"0.5 - 3", "fp"}, {"3 / 0.5", "pf"}, {"0.5 / 3", "fz"},
	{"0.5 + 1.5", "ff"}, {"0.5 * 1.5", "ff"}, {"1.5 - 0.5", "ff"}, {"1.5 / 0.5", "ff"},
	{"1 + 2 + 3", "iii"}, {"1 * 2 * 3", "ppp"}, {"1 + 2 * 3", "ipp"}, {"(1 + 2) * 3", "iip"}, {"1 - 2 - 3", "iii"}, {"8 / 2 / 2", "izz"},
	{"int(value) + 1 + 2", "ii"}, {"int(value) + 1 + 2 + 3", "iii"}, {"int(value) * 2 * 3", "pp"}, {"1 + int(value) + 2", "ii"},
	{"int(value) + 1 - 2", "ii"}, {"int(value) - 1 + 2", "ii"}, {"int(value) - 1 - 2", "ii"}, {"int(value) * 2 / 3", "pz"}, {"int(value) / 2 * 3", "zp"},
	{"int(value) + 0.5 + 1.5", "ff"}, {"int(value) * 0.5 * 2.0", "ff"}, {"int(value) + 1 + 0.5", "pf"}, {"int(value) * 2 * 0.5", "pf"},
	{"1 + 2 + int(value)", "ii"}, {"2 * 3 * int(value)", "pp"}, {"int(value) + (1 + 2)", "ii"}, {"int(value) * (2 * 3)", "pp"},
	{"'a' + 'b'", "ss"}, {"key + 'a' + 'b'", "ss"}, {"'a' + key", "s"}, {"'a' + 'b' + key", "ss"}, {"key + ('a' + 'b')", "ss"},
	{"'a' + key + 'b'", "ss"}, {"'a' + value + 'b' + 'c'", "sss"}, {"'a' + upper(key) + 'b'", "ss"}, {"'a' + (key + 'b')", "ss"}, {"'a' + key + value + 'b'", "ss"},
	{"2 * int(value) * 3", "pp"}, {"1 + int(value) + 2 + 3", "iii"}, {"2 * (int(value) * 3)", "pp"}, {"1 + strlen(key) + 2", "ii"}, {"0.5 + int(value) + 1.5", "ff"},
	{"float(value) / 2 > 1 + 1", "zpp"}, {"float(value) / 2 <= 4 - 2", "zpp"}, {"int(value) / 2.0 >= 1 * 2", "fpp"}, {"float(value) / 2 < int('2')", "zt"},
	{"1 + 1 < float(value) / 2", "ppz"}, {"float(value) / 4 = 1 + 1", "zpp"},
	{"int(lower('7'))", "t"}, {"float(upper('1.5'))", "t"}, {"int(substr('123', 0, 2))", "tkk"}, {"int('1' + '2')", "uu"}, {"int('12')", "t"},
	{"float('1.5')", "t"}, {"is_int(lower('7'))", "t"}, {"is_float(upper('7'))", "t"}, {"strlen(lower('AB'))", "t"}, {"int(join('', '1', '2'))", "kuu"},
	{"int(str(7))", "d"}, {"int_list(lower('7'), 2)[0]", "tk"}, {"len(split(lower('a,b'), ','))", "tk"},
	{"upper('ab')", "s"}, {"lower('AB')", "s"}, {"strlen('ab') + 1", "si"}, {"int('12') + 1", "ki"}, {"str(5)", "d"}, {"str(2 + 3)", "pp"},
	{"is_int('12')", "s"}, {"join(',', 'a', 'b')", "sss"}, {"substr('abc', 0, 2)", "skk"}, {"upper('a' + 'b')", "ss"}, {"strlen(upper('ab'))", "s"},
	{"1 = 2", "ii"}, {"1 != 2", "ii"}, {"1 < 2", "ii"}, {"1 >= 2", "ii"}, {"0.5 < 1.5", "ff"}, {"1 < 0.5", "pf"}, {"'a' = 'b'", "ss"}, {"'a' < 'b'", "ss"},
	{"(1 = 2) & (key = 'a')", "iis"}, {"(key = 'a') & (1 = 2)", "sii"}, {"(1 < 2) | (key = 'a')", "iis"}, {"(key ^= 'a') | (1 > 2)", "sii"},
	{"(1 = 2) & (3 = 4)", "iiii"}, {"(1 = 2) | (3 < 4)", "iiii"}, {"(key = 'a') & ('a' != 'b')", "sss"}, {"(int(value) > 1 + 2) & (2 = 2)", "iiii"},
	{"int(value) + 1 + 2 > 3 + 4", "iiii"}, {"int(value) * 2 * 3 = 6 * 2", "pppp"}, {"strlen(key + 'a' + 'b') = 1 + 2", "ssii"},
}

func VN_C04(tier int) int { return len(vC04Shapes) }

var vIntPool = []int64{-1, 0, 1, 2, 3, 10}
var vNonZeroPool = []int64{-1, 1, 2, 3, 10}
var vFloatPool = []float64{0.5, 1.5, 2.0, 0.25, 3.0, 0.1}

// vLiterals collects the literal nodes of an expression in left-to-right order.
func vLiterals(e Expression, out *[]Expression) {
	switch x := e.(type) {
	case *NumberExpr, *FloatExpr, *StringExpr:
		*out = append(*out, e)
	case *BinaryOpExpr:
		vLiterals(x.Left, out)
		vLiterals(x.Right, out)
	case *NotExpr:
		vLiterals(x.Right, out)
	case *FunctionCallExpr:
		for _, a := range x.Args {
			vLiterals(a, out)
		}
	case *ListExpr:
		for _, a := range x.List {
			vLiterals(a, out)
		}
	case *FieldAccessExpr:
		vLiterals(x.Left, out)
	}
}

type vLitVal struct {
	i int64
	f float64
	s string
}

func vOverwrite(lits []Expression, vals []vLitVal, kinds string) {
	for j, l := range lits {
		if kinds[j] == 'k' {
			continue
		}
		if kinds[j] == 't' || kinds[j] == 'u' {
			if n, ok := l.(*StringExpr); ok {
				n.Data = vals[j].s
			}
			continue
		}
		switch n := l.(type) {
		case *NumberExpr:
			n.Int = vals[j].i
		case *FloatExpr:
			n.Float = vals[j].f
		case *StringExpr:
			n.Data = vals[j].s
		}
	}
}

// vSameValue: same Go kind (integer stays integer, float stays float, text stays text,
// Boolean stays Boolean) and equal content.
func vSameValue(a, b any) bool {
	if ab, ok := vColBytes(a); ok {
		bb, ok2 := vColBytes(b)
		return ok2 && vEqBytes(ab, bb)
	}
	switch x := a.(type) {
	case int64:
		y, ok := b.(int64)
		return ok && x == y
	case int:
		y, ok := b.(int)
		return ok && x == y
	case float64:
		y, ok := b.(float64)
		return ok && x == y
	case bool:
		y, ok := b.(bool)
		return ok && x == y
	}
	vAssert(false, "harness/C04-unexpected-result-kind")
	return false
}

func vParseField(text string) (Expression, error) {
	st, err := NewParser("select " + text + " where key >= ''").Parse()
	if err != nil {
		return nil, err
	}
	return st.(*SelectStmt).Fields[0], nil
}

func VH_C04(si int) {
	sh := vC04Shapes[si]
	vLazyFormat(true)
	orig, err := vParseField(sh.text)
	if err != nil {
		vCover("rejected")
		return
	}
	rew, _ := vParseField(sh.text)
	var lo, lr []Expression
	vLiterals(orig, &lo)
	vLiterals(rew, &lr)
	vAssert(len(lo) == len(sh.kinds) && len(lr) == len(lo), "harness/C04-literal-count")
	vals := make([]vLitVal, len(lo))
	for j := range lo {
		tag := "c" + vItoa(j)
		switch sh.kinds[j] {
		case 'i':
			vals[j].i = vNondetInt64(tag)
		case 'p':
			vals[j].i = vIntPool[vChoose(tag, len(vIntPool))]
		case 'z':
			vals[j].i = vNonZeroPool[vChoose(tag, len(vNonZeroPool))]
			vals[j].f = float64(vals[j].i)
		case 'd':
			vals[j].i = int64(vNondetInt(tag, 0, 9))
		case 'f':
			vals[j].f = vNondetFloatPool(tag, vFloatPool)
		case 's':
			vals[j].s = vNondetString(tag, 0, 2, "0123456789abAB")
		case 'u':
			vals[j].s = vNondetString(tag, 0, 1, " 7.-")
		case 't': // numeric-looking text with padding, signs and dots
			vals[j].s = vNondetString(tag, 0, 2, " 7.-,")
		}
	}
	vOverwrite(lo, vals, sh.kinds)
	vOverwrite(lr, vals, sh.kinds)
	eo := ExpressionOptimizer{Root: rew}
	rew = eo.Optimize()
	key := vNondetBytes("key", 0, 2, vASCII)
	vlen := 2
	for j := range sh.kinds {
		if sh.kinds[j] == 'f' {
			vlen = 1 // keeps int(value) within a small value set: floats stay out of the solver
		}
	}
	val := vNondetBytes("val", 1, vlen, "0123456789")
	kv := NewKVP(key, val)
	// row at a time
	ro, errO := orig.Execute(kv, NewExecuteCtx())
	if errO != nil {
		vCover("original-fails")
		return
	}
	rr, errR := rew.Execute(kv, NewExecuteCtx())
	vAssert(errR == nil, "C04/rewritten-expression-fails-where-the-original-evaluates")
	vAssert(vSameValue(ro, rr), "C04/rewrite-changes-value-or-kind")
	// batch
	chunk := []KVPair{kv}
	bo, errO := orig.ExecuteBatch(chunk, NewExecuteCtx())
	if errO == nil {
		br, errR := rew.ExecuteBatch(chunk, NewExecuteCtx())
		vAssert(errR == nil, "C04/rewritten-expression-fails-where-the-original-evaluates")
		vAssert(len(bo) == 1 && len(br) == 1 && vSameValue(bo[0], br[0]), "C04/rewrite-changes-value-or-kind")
	}
	if _, folded := rew.(*BinaryOpExpr); !folded {
		vCover("folded-to-a-leaf")
	}
	vCover("compared")
}
