//go:build verif || verifreplay

package kvql

// C16 — tokens carry their true offset and text; spacing between tokens is irrelevant.
// Harness A: the query is exactly n symbolic bytes; the real Lexer.Split runs on it; every
// token is checked against the query bytes at its reported position (DESIGN.md Appendix F).

const vPrintable = " !\"#$%&'()*+,-./0123456789:;<=>?@ABCDEFGHIJKLMNOPQRSTUVWXYZ[\\]^_`abcdefghijklmnopqrstuvwxyz{|}~"

// token-relevant alphabet: every byte class the lexer distinguishes, two word letters
// (one of each case), a digit, a dot
const vLexAlpha = " '\"`~^=!*+-/><&|()[],;aB1.\t\n\r"

// reduced class alphabets for longer inputs: one representative per class
const vLexAlpha11 = " '\"<=!&(,a1"
const vLexAlpha7 = " '<=(a1"

func vIsBlank(c byte) bool {
	return vOr(c == ' ', vOr(c == '\t', vOr(c == '\n', c == '\r')))
}

func vIsDelim(c byte) bool {
	r := vIsBlank(c)
	for i := 0; i < len(vDelims); i++ {
		r = vOr(r, c == vDelims[i])
	}
	return r
}

const vDelims = "'\"`~^=!*+-/><&|()[],;"

func vLowerByte(c byte) byte {
	return vIteByte(vAnd(c >= 'A', c <= 'Z'), c+32, c)
}

// vBalanced: a left-to-right scan with the documented quoting rule ends outside a literal.
// Returns also, per offset, whether the byte lies outside any literal (quote characters
// themselves count as inside).
func vQuoteScan(q string) (balanced bool, outside []bool) {
	outside = make([]bool, len(q))
	in := false
	var qc byte
	for i := 0; i < len(q); i++ {
		c := q[i]
		isq := vOr(c == '\'', vOr(c == '"', c == '`'))
		opens := vAnd(vNot(in), isq)
		closes := vAnd(in, c == qc)
		outside[i] = vAnd(vNot(in), vNot(isq))
		qc = vIteByte(opens, c, qc)
		in = vOr(opens, vAnd(in, vNot(closes)))
	}
	return vNot(in), outside
}

func VH_C16_A(n int, alpha int) {
	al := vLexAlpha
	switch alpha {
	case 1:
		al = vPrintable
	case 2:
		al = vLexAlpha11
	case 3:
		al = vLexAlpha7
	}
	vFreeParseFloat(true)
	q := vNondetString("q", n, n, al)
	balanced, outside := vQuoteScan(q)
	vAssume(balanced)
	toks := NewLexer(q).Split()
	prevEnd := 0
	for ti, t := range toks {
		_ = ti
		pos := t.Pos
		dl := len(t.Data)
		quoted := t.Tp == STRING
		if t.Tp == NAME && pos >= 0 && pos < n && q[pos] == '`' {
			quoted = true
		}
		end := pos + dl
		if quoted {
			end = pos + dl + 2
		}
		// T1
		vAssert(pos >= 0 && end <= n, "C16/T1-extent-inside-query")
		// T3 disjoint, increasing
		vAssert(pos >= prevEnd, "C16/T3-extents-ordered")
		prevEnd = end
		if quoted {
			qc := q[pos]
			ok := vOr(qc == '\'', vOr(qc == '"', qc == '`'))
			if t.Tp == NAME {
				ok = qc == '`'
			} else {
				ok = vOr(qc == '\'', qc == '"')
			}
			ok = vAnd(ok, q[end-1] == qc)
			for j := 0; j < dl; j++ {
				ok = vAnd(ok, q[pos+1+j] == t.Data[j])
				ok = vAnd(ok, t.Data[j] != qc)
			}
			vAssert(ok, "C16/T2s-literal-content")
			vCover("literal")
			continue
		}
		vAssert(dl > 0, "C16/T2-nonempty")
		isSym := t.Tp == LPAREN || t.Tp == RPAREN || t.Tp == LBRACK || t.Tp == RBRACK || t.Tp == SEP || t.Tp == SEMI
		if t.Tp == OPERATOR {
			switch t.Data {
			case "in", "between", "and", "or":
			default:
				isSym = true
			}
		}
		if isSym {
			ok := true
			for j := 0; j < dl; j++ {
				ok = vAnd(ok, q[pos+j] == t.Data[j])
			}
			vAssert(ok, "C16/T2o-operator-text")
			vCover("operator")
			continue
		}
		// words, keywords, numbers
		ok := true
		for j := 0; j < dl; j++ {
			ok = vAnd(ok, vLowerByte(q[pos+j]) == t.Data[j])
			ok = vAnd(ok, vNot(vIsDelim(q[pos+j])))
		}
		vAssert(ok, "C16/T2w-word-text")
		adj := true
		if pos > 0 {
			adj = vAnd(adj, vIsDelim(q[pos-1]))
		}
		if end < n {
			adj = vAnd(adj, vIsDelim(q[end]))
		}
		vAssert(adj, "C16/T2w-word-maximal")
		vCover("word")
	}
	// T5: nothing is dropped - every byte outside literals that is not a blank lies inside the
	// extent of some token
	for i := 0; i < n; i++ {
		covered := false
		for _, t := range toks {
			s, e := vExtent(q, t)
			covered = vOr(covered, vAnd(s <= i, i < e))
		}
		vAssert(vImplies(vAnd(outside[i], vNot(vIsBlank(q[i]))), covered), "C16/T5-byte-outside-every-token")
	}
	// T4: two-character operators outside literals are single tokens
	for i := 0; i+1 < n; i++ {
		c := q[i]
		two := vAnd(vAnd(outside[i], outside[i+1]), q[i+1] == '=')
		two = vAnd(two, vOr(c == '!', vOr(c == '^', vOr(c == '~', vOr(c == '>', c == '<')))))
		// maximal munch: the first byte must not itself be the '=' of an earlier pair; the
		// candidates above never are ('=' is not among them)
		found := false
		for _, t := range toks {
			if t.Pos == i && t.Tp == OPERATOR && len(t.Data) == 2 {
				found = vOr(found, vAnd(t.Data[0] == c, t.Data[1] == '='))
			}
		}
		vAssert(vImplies(two, found), "C16/T4-two-char-operator")
	}
}

// vExtent: [start, end) of a token in the query text (quoted literals include their quotes).
func vExtent(q string, t *Token) (int, int) {
	end := t.Pos + len(t.Data)
	if t.Tp == STRING || (t.Tp == NAME && t.Pos >= 0 && t.Pos < len(q) && q[t.Pos] == '`') {
		end += 2
	}
	return t.Pos, end
}

// VH_C16_B (spacing): for a query whose token extents and blanks tile it completely, inserting
// one blank at any extent boundary leaves the sequence of token kinds and texts unchanged and
// shifts the later offsets by one.
func VH_C16_B(n int, alpha int) {
	al := vLexAlpha
	switch alpha {
	case 1:
		al = vPrintable
	case 2:
		al = vLexAlpha11
	case 3:
		al = vLexAlpha7
	}
	vFreeParseFloat(true)
	q := vNondetString("q", n, n, al)
	balanced, _ := vQuoteScan(q)
	vAssume(balanced)
	toks := NewLexer(q).Split()
	// tiling: every byte belongs to an extent or is a blank (decided per path: offsets are concrete)
	covered := make([]bool, n)
	for _, t := range toks {
		s, e := vExtent(q, t)
		if s < 0 || e > n {
			return // C16/T1 is harness A's subject
		}
		for i := s; i < e; i++ {
			covered[i] = true
		}
	}
	for i := 0; i < n; i++ {
		if !covered[i] {
			if q[i] != ' ' { // forks
				vCover("not-tiled")
				return
			}
		}
	}
	bounds := map[int]bool{}
	for _, t := range toks {
		s, e := vExtent(q, t)
		bounds[s] = true
		bounds[e] = true
	}
	for p := 0; p <= n; p++ {
		if !bounds[p] {
			continue
		}
		q2 := q[:p] + " " + q[p:]
		toks2 := NewLexer(q2).Split()
		vAssert(len(toks2) == len(toks), "C16/T5-inserting-a-blank-changes-the-number-of-tokens")
		ok := true
		for i := range toks {
			ok = vAnd(ok, toks2[i].Tp == toks[i].Tp)
			ok = vAnd(ok, toks2[i].Data == toks[i].Data)
			shift := 0
			if toks[i].Pos >= p {
				shift = 1
			}
			ok = vAnd(ok, toks2[i].Pos == toks[i].Pos+shift)
		}
		vAssert(ok, "C16/T5-inserting-a-blank-changes-token-kinds-texts-or-offsets")
		vCover("spaced")
	}
}
