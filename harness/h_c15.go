//go:build verif || verifreplay

package kvql

// C15 — parsing follows the documented precedence; the printed form re-parses identically.

// operator spellings with their documented binding strength (README: OR weakest, then AND,
// then comparisons with IN and BETWEEN, then + -, then * /)
type vOpSpec struct {
	src   string // source spelling (lower case; letters get a symbolic case)
	canon string // as printed by the library
	prec  int
}

var vC15Ops = []vOpSpec{
	{"|", "|", 1}, {"or", "or", 1}, {"&", "&", 2}, {"and", "and", 2},
	{"=", "=", 3}, {"!=", "!=", 3}, {"^=", "^=", 3}, {"~=", "~=", 3}, {">", ">", 3}, {">=", ">=", 3}, {"<", "<", 3}, {"<=", "<=", 3},
	{"in", "in", 3}, {"between", "between", 3},
	{"+", "+", 4}, {"-", "-", 4}, {"*", "*", 5}, {"/", "/", 5},
}

const (
	vOpIn      = 12
	vOpBetween = 13
)

// vWord renders a keyword with a symbolic case for every letter.
func vWord(tag, w string) string {
	b := make([]byte, len(w))
	for i := 0; i < len(w); i++ {
		c := w[i]
		if c >= 'a' && c <= 'z' {
			b[i] = vNondetByte(tag+vItoa(i), string([]byte{c, c - 32}))
		} else {
			b[i] = c
		}
	}
	return string(b)
}



type struct2 = struct {
	src    string
	canon  string
	isList bool // starts with '(' in the source: after IN it is taken as the list
}

// vMakeAtomOperand: kind 0 key, 1 text literal, 2 number, 3 call, 4 value
func vMakeAtomOperand(kind int, tag string) struct2 {
	switch kind {
	case 0:
		return struct2{src: vWord(tag, "key"), canon: "KEY"}
	case 1:
		t, b := vLit(tag+"s", vC15LitMin, 2, vLitAlpha)
		return struct2{src: t, canon: "'" + string(b) + "'"}
	case 2:
		d := vNondetBytes(tag+"n", 1, vC15NumMax, "0123456789")
		return struct2{src: string(d), canon: string(d)}
	case 3:
		return struct2{src: vWord(tag+"f", "upper") + "(" + vWord(tag+"a", "key") + ")", canon: "upper(KEY)"}
	case 5: // field access chain on a call
		t, b := vLit(tag+"s", 1, 1, vLitAlpha)
		return struct2{src: vWord(tag+"f", "json") + "(" + vWord(tag+"a", "value") + ")[" + t + "][1]", canon: "json(VALUE)['" + string(b) + "'][1]"}
	case 6: // call with several arguments, one of them a sub-expression
		t, b := vLit(tag+"s", 1, 1, vLitAlpha)
		return struct2{src: vWord(tag+"f", "substr") + "(" + vWord(tag+"a", "key") + " + " + t + ", 0, 1 + 2)", canon: "substr((KEY + '" + string(b) + "'), 0, (1 + 2))"}
	case 8: // float literal with a fraction (whole-valued ones among them)
		t := []string{"2.0", "0.5", "7.25", "10.00"}[vChoose(tag+"f", 4)]
		return struct2{src: t, canon: t}
	case 9: // Boolean literal
		w := "true"
		if vNondetBool(tag + "b") {
			w = "false"
		}
		return struct2{src: vWord(tag, w), canon: w}
	case 10: // float literal in exponent form
		i := vChoose(tag+"f", 3)
		return struct2{src: []string{"1e3", "5E0", "2.5e1"}[i], canon: []string{"1e3", "5e0", "2.5e1"}[i]}
	case 7: // nested calls and a negated argument
		return struct2{src: vWord(tag+"f", "upper") + "(" + vWord(tag+"g", "lower") + "(" + vWord(tag+"a", "key") + "))", canon: "upper(lower(KEY))"}
	}
	return struct2{src: vWord(tag, "value"), canon: "VALUE"}
}

var vC15LitMin, vC15NumMax = 0, 2

const vC15Kinds = 11

// reference parser: precedence climbing over the operand/operator arrays
type vRefParser struct {
	operands []struct2
	ops      []int // index into vC15Ops, -1 = the AND connector of a BETWEEN
	pos      int   // next operator
}

func (p *vRefParser) parse(minPrec int) string {
	left := p.operands[p.pos].canon
	for p.pos < len(p.ops) {
		oi := p.ops[p.pos]
		if oi < 0 {
			return left // connector of an enclosing BETWEEN
		}
		op := vC15Ops[oi]
		if op.prec < minPrec {
			return left
		}
		p.pos++
		switch {
		case oi == vOpBetween:
			lo := p.parse(op.prec + 1)
			vAssert(p.pos < len(p.ops) && p.ops[p.pos] == -1, "harness/C15-between-without-connector")
			p.pos++
			hi := p.parse(op.prec + 1)
			left = "(" + left + " BETWEEN " + lo + " AND " + hi + ")"
		case oi == vOpIn && p.operands[p.pos].isList:
			left = "(" + left + " in (" + p.operands[p.pos].canon + "))"
		default:
			right := p.parse(op.prec + 1)
			left = "(" + left + " " + op.canon + " " + right + ")"
		}
	}
	return left
}

func vParseExprText(text string) (Expression, error) {
	p := NewParser(text)
	p.next()
	if p.tok == nil {
		return nil, NewSyntaxError(-1, "empty")
	}
	e, err := p.parseExpr()
	if err != nil {
		return nil, err
	}
	if p.tok != nil {
		return nil, NewSyntaxError(p.tok.Pos, "trailing tokens")
	}
	return e, nil
}

// VH_C15(m, variant, opsel): chains of m operators.
// variant 0: operand kinds free (4 kinds each); 1: fixed operand kinds, one operand parenthesised
// sub-chain; 2: fixed operand kinds, one operand negated with !
// opsel >= 0 fixes the first operator (instances are split by it).
func VH_C15(m, variant, opsel int) {
	ops := make([]int, 0, m+2)
	operands := make([]struct2, 0, m+3)
	nextOperand := func(i int) struct2 {
		kind := (i * 3) % vC15Kinds
		if variant == 0 {
			kind = vChoose("kind"+vItoa(i), vC15Kinds)
		}
		return vMakeAtomOperand(kind, "x"+vItoa(i))
	}
	special := -1
	if variant == 1 || variant == 2 {
		special = vChoose("special", m+1)
	}
	if m >= 2 {
		vC15LitMin, vC15NumMax = 1, 1
	}
	text := ""
	addOperand := func(i int) {
		var o struct2
		switch {
		case i == special && variant == 1:
			// parenthesised sub-chain  (a op b)
			a := vMakeAtomOperand(0, "p0")
			b := vMakeAtomOperand(1, "p1")
			so := vChoose("subop", len(vC15Ops))
			vAssume(so != vOpIn && so != vOpBetween)
			sop := vC15Ops[so]
			o = struct2{src: "(" + a.src + " " + vWord("so", sop.src) + " " + b.src + ")", canon: "(" + a.canon + " " + sop.canon + " " + b.canon + ")", isList: true}
		case i == special && variant == 2:
			a := nextOperand(i)
			o = struct2{src: "!" + a.src, canon: "!(" + a.canon + ")"}
		default:
			o = nextOperand(i)
		}
		operands = append(operands, o)
		text += o.src
	}
	addOperand(0)
	n := 0
	for j := 0; j < m; j++ {
		var oi int
		if j == 0 && opsel >= 0 {
			oi = opsel
		} else {
			oi = vChoose("op"+vItoa(j), len(vC15Ops))
		}
		// an operator binding tighter than comparisons directly after an IN-list is outside the claim
		if len(ops) > 0 && ops[len(ops)-1] == vOpIn && operands[len(operands)-1].isList {
			vAssume(vC15Ops[oi].prec <= 3)
		}
		ops = append(ops, oi)
		text += " " + vWord("o"+vItoa(j), vC15Ops[oi].src) + " "
		n++
		switch oi {
		case vOpIn:
			// the right operand of IN is a list of one or two atoms (or the special operand)
			if n == special && variant == 1 {
				addOperand(n)
			} else {
				a := vMakeAtomOperand(1, "l"+vItoa(j)+"a")
				b := vMakeAtomOperand(2, "l"+vItoa(j)+"b")
				o := struct2{src: "(" + a.src + ", " + b.src + ")", canon: a.canon + ", " + b.canon, isList: true}
				operands = append(operands, o)
				text += o.src
			}
		case vOpBetween:
			addOperand(n)
			ops = append(ops, -1)
			text += " " + vWord("c"+vItoa(j), "and") + " "
			n++
			addOperand(n)
		default:
			addOperand(n)
		}
	}
	rp := &vRefParser{operands: operands, ops: ops}
	want := rp.parse(1)
	e, err := vParseExprText(text)
	vAssert(err == nil, "C15/well-formed-chain-rejected")
	got := e.String()
	vAssert(got == want, "C15/tree-differs-from-documented-precedence")
	// printed form parses to the same tree
	e2, err := vParseExprText(got)
	vAssert(err == nil, "C15/printed-form-rejected")
	vAssert(e2.String() == got, "C15/printed-form-parses-to-a-different-tree")
	vAssert(vTreeEq(e, e2), "C15/printed-form-parses-to-a-different-tree")
	vCover("parsed")
}

// vTreeEq: structural equality of two expression trees (node types and payloads, positions ignored).
func vTreeEq(a, b Expression) bool {
	switch x := a.(type) {
	case *BinaryOpExpr:
		y, ok := b.(*BinaryOpExpr)
		return ok && x.Op == y.Op && vTreeEq(x.Left, y.Left) && vTreeEq(x.Right, y.Right)
	case *FieldExpr:
		y, ok := b.(*FieldExpr)
		return ok && x.Field == y.Field
	case *StringExpr:
		y, ok := b.(*StringExpr)
		return ok && x.Data == y.Data
	case *NotExpr:
		y, ok := b.(*NotExpr)
		return ok && vTreeEq(x.Right, y.Right)
	case *FunctionCallExpr:
		y, ok := b.(*FunctionCallExpr)
		if !ok || len(x.Args) != len(y.Args) || !vTreeEq(x.Name, y.Name) {
			return false
		}
		for i := range x.Args {
			if !vTreeEq(x.Args[i], y.Args[i]) {
				return false
			}
		}
		return true
	case *NameExpr:
		y, ok := b.(*NameExpr)
		return ok && x.Data == y.Data
	case *FieldReferenceExpr:
		y, ok := b.(*FieldReferenceExpr)
		return ok && x.Name.Data == y.Name.Data
	case *NumberExpr:
		y, ok := b.(*NumberExpr)
		return ok && x.Data == y.Data && x.Int == y.Int
	case *FloatExpr:
		y, ok := b.(*FloatExpr)
		return ok && x.Data == y.Data && (x.Float == y.Float || x.Float != x.Float)
	case *BoolExpr:
		y, ok := b.(*BoolExpr)
		return ok && x.Bool == y.Bool
	case *ListExpr:
		y, ok := b.(*ListExpr)
		if !ok || len(x.List) != len(y.List) {
			return false
		}
		for i := range x.List {
			if !vTreeEq(x.List[i], y.List[i]) {
				return false
			}
		}
		return true
	case *FieldAccessExpr:
		y, ok := b.(*FieldAccessExpr)
		return ok && vTreeEq(x.Left, y.Left) && vTreeEq(x.FieldName, y.FieldName)
	}
	return false
}

// EXPLAIN clause: the filter a plan shows is the optimised one (constants folded). Its text must
// parse again, to a filter that selects the same rows - "the filter shown by EXPLAIN is the
// filter executed".
var vC15ExplainStmts = []string{
	"int(value) > A - B", "int(value) + (A - B) > 0", "float(value) > A.5 - B", "float(value) * (A - B.5) < 1",
	"float(value) / (float('B') + 1) > 1", "float(value) > 1e20 * A00.0", "int(value) * (A * B) >= 0", "key + 'A' + 'B' = 'aAB'",
	"int(value) > int('A') - int('B')", "strlen(key) = strlen('A' + 'B') - 1", "float(value) > float(A - B)", "is_int(str(A - B) + value)",
	"int(value) in (A - B, B - A, A)", "int(value) between A - B and A + B",
	"int(value) > 0 - 9223372036854775807 - 1", "float(value) < 1e308 * 10.0 + A", "float(value) > 0 - 1e308 * 1B.0", "int(value) > -9223372036854775807 - A",
}

func VN_C15_EXPLAIN(tier int) int { return len(vC15ExplainStmts) }

func VH_C15_EXPLAIN(si, n int) {
	a := vNondetBytes("A", 1, 1, "0129")
	b := vNondetBytes("B", 1, 1, "0129")
	w := ""
	for i := 0; i < len(vC15ExplainStmts[si]); i++ {
		switch c := vC15ExplainStmts[si][i]; c {
		case 'A':
			w += string(a)
		case 'B':
			w += string(b)
		default:
			w += string(c)
		}
	}
	o := NewOptimizer("select * where " + w)
	if o.init() != nil {
		vCover("rejected")
		return
	}
	shown := o.filter.Ast.Expr.String()
	o2 := NewOptimizer("select * where " + shown)
	vAssert(o2.init() == nil, "C15/shown-filter-does-not-parse")
	vAssert(o2.filter.Ast.Expr.String() == shown, "C15/shown-filter-parses-to-a-different-tree")
	vAssert(vTreeEq(o.filter.Ast.Expr, o2.filter.Ast.Expr), "C15/shown-filter-parses-to-a-different-tree")
	// and it selects the same rows
	st := vSymStore(n, 1, 1, 1, 1, "a", "0123")
	p1, err := NewOptimizer("select * where " + w).BuildPlan(st.clone())
	vAssert(err == nil, "harness/C15-EXPLAIN-plan")
	r1 := vDrainNext(p1, n+1)
	p2, err := NewOptimizer("select * where " + shown).BuildPlan(st.clone())
	vAssert(err == nil, "C15/shown-filter-rejected-by-the-planner")
	r2 := vDrainNext(p2, n+1)
	if r1.err != nil {
		vCover("execution-error")
		return
	}
	vAssert(r2.err == nil, "C15/shown-filter-fails-where-the-statement-runs")
	vAssert(vSameRows(r1.rows, r2.rows), "C15/shown-filter-selects-different-rows")
	vCover("round-trip")
}

// Shown filters that refer to select fields by name: names that can only be written in back
// quotes (upper-case letters, reserved words, number words) must be shown in a form that reads
// back as the same reference.
var vC15AliasStmts = []string{
	"select key as `Id`, value where `Id` = 'a'",
	"select value as `limit`, key where `limit` ^= '1' & key >= ''",
	"select upper(key) as `in`, value where `in` != 'x' | value = '2'",
	"select key as k, int(value) as `N1` where `N1` > 0 & k >= ''",
	"select key as `inf`, value as `Nan` where `inf` >= '' & `Nan` != 'q'",
	"select key as `order`, value as `By` where `order` + `By` != 'zz'",
	"select key as lower_name, value where lower_name = 'a'",
}

func VN_C15_ALIAS(tier int) int { return len(vC15AliasStmts) }

func VH_C15_ALIAS(si, n int) {
	q := vC15AliasStmts[si]
	cut := 0
	for i := 0; i+7 <= len(q); i++ {
		if q[i:i+7] == " where " {
			cut = i + 7
		}
	}
	o := NewOptimizer(q)
	vAssert(o.init() == nil, "harness/C15-ALIAS-rejected")
	shown := o.filter.Ast.Expr.String()
	q2 := q[:cut] + shown
	o2 := NewOptimizer(q2)
	vAssert(o2.init() == nil, "C15/shown-filter-does-not-parse")
	vAssert(o2.filter.Ast.Expr.String() == shown, "C15/shown-filter-parses-to-a-different-tree")
	st := vSymStore(n, 1, 1, 1, 1, "ab", "012")
	p1, err := NewOptimizer(q).BuildPlan(st.clone())
	vAssert(err == nil, "harness/C15-ALIAS-plan")
	r1 := vDrainNext(p1, n+1)
	p2, err := NewOptimizer(q2).BuildPlan(st.clone())
	vAssert(err == nil, "C15/shown-filter-rejected-by-the-planner")
	r2 := vDrainNext(p2, n+1)
	vAssert((r1.err == nil) == (r2.err == nil), "C15/shown-filter-fails-where-the-statement-runs")
	if r1.err == nil {
		vAssert(vSameRows(r1.rows, r2.rows), "C15/shown-filter-selects-different-rows")
	}
	vCover("round-trip")
}
