//go:build verif || verifreplay

package kvql

// C14 — statically wrong statements are rejected before any storage access; statements the
// typing rules allow are accepted and never fail with an operand-type error.

var vTextOperands = []string{"key", "value", "'a'", "upper(key)", "lower(value)", "str(int(value))", "key + 'x'", "substr(value, 0, 1)", "join(',', key, value)"}
var vNumOperands = []string{"int(value)", "strlen(key)", "7", "int(value) + 1", "strlen(value) * 2", "float(value)", "1.5", "int(value) / 2", "len(split(value, ','))"}
var vBoolOperands = []string{"is_int(value)", "true", "false", "is_float(key)", "(key = 'a')", "(int(value) > 1)", "!(key ^= 'a')"}
var vListOperands = []string{"split(value, ',')", "list(1, 2)", "int_list(1, int(value))"}

var vTextOps = []string{"=", "!=", "^=", ">", ">=", "<", "<="}
var vNumOps = []string{"=", "!=", ">", ">=", "<", "<="}

// well-typed Boolean atoms, decoded from an index
func vNumBoolAtoms() int {
	nt, nn, nb := len(vTextOperands), len(vNumOperands), len(vBoolOperands)
	return nt*nt*len(vTextOps) + nn*nn*len(vNumOps) + nb*nb*2 + nb + nt*2 + nn*2 + nt + nn
}

func vBoolAtom(i int) string {
	nt, nn, nb := len(vTextOperands), len(vNumOperands), len(vBoolOperands)
	if i < nt*nt*len(vTextOps) {
		op := vTextOps[i%len(vTextOps)]
		i /= len(vTextOps)
		return vTextOperands[i/nt] + " " + op + " " + vTextOperands[i%nt]
	}
	i -= nt * nt * len(vTextOps)
	if i < nn*nn*len(vNumOps) {
		op := vNumOps[i%len(vNumOps)]
		i /= len(vNumOps)
		return vNumOperands[i/nn] + " " + op + " " + vNumOperands[i%nn]
	}
	i -= nn * nn * len(vNumOps)
	if i < nb*nb*2 {
		op := []string{"=", "!="}[i%2]
		i /= 2
		return vBoolOperands[i/nb] + " " + op + " " + vBoolOperands[i%nb]
	}
	i -= nb * nb * 2
	if i < nb {
		return vBoolOperands[i]
	}
	i -= nb
	if i < nt*2 {
		if i%2 == 0 {
			return vTextOperands[i/2] + " in ('a', 'b')"
		}
		return vTextOperands[i/2] + " between 'a' and 'b'"
	}
	i -= nt * 2
	if i < nn*2 {
		if i%2 == 0 {
			return vNumOperands[i/2] + " in (1, 2)"
		}
		return vNumOperands[i/2] + " between 1 and 5"
	}
	i -= nn * 2
	if i < nt {
		return vTextOperands[i] + " in split(value, ',')"
	}
	i -= nt
	return vNumOperands[i] + " in list(1, 2)"
}

// the reference typing rules exclude comparing a field with itself only because the library
// documents that refusal ("two same field"); such atoms are skipped
func vSameFieldTwice(a string) bool {
	for _, f := range []string{"key", "value"} {
		for _, op := range append(append([]string{}, vTextOps...), "in", "between") {
			p := f + " " + op + " " + f
			if len(a) >= len(p) && a[:len(p)] == p && (len(a) == len(p) || a[len(p)] == ' ') {
				return true
			}
		}
	}
	return false
}

func vContains(s, sub string) bool {
	for i := 0; i+len(sub) <= len(s); i++ {
		if s[i:i+len(sub)] == sub {
			return true
		}
	}
	return false
}

var vTypeErrorMarks = []string{"wrong type", "Invalid operator", "parameter type", "Cannot find function", "require ", "not boolean", "not support", "not list", "not number", "not string", "Invalid field name", "invalid type"}

func vIsOperandTypeError(err error) bool {
	msg := err.Error()
	for _, m := range vTypeErrorMarks {
		if vContains(msg, m) {
			return true
		}
	}
	return false
}

func VN_C14_ATOMS(tier int) int { return vNumBoolAtoms() }

// VH_C14_OK(a, b, conn): statement built from well-typed atoms a (and b when conn > 0):
// conn 0: atom a alone; 1: a & b; 2: a | b; 3: !(a); 4: a as WHERE with b's left operand selected.
func VH_C14_OK(a, b, conn, n int) {
	A := vBoolAtom(a % vNumBoolAtoms())
	if vSameFieldTwice(A) {
		return
	}
	w := A
	switch conn {
	case 1, 2:
		B := vBoolAtom(b % vNumBoolAtoms())
		if vSameFieldTwice(B) {
			return
		}
		op := " & "
		if conn == 2 {
			op = " or "
		}
		w = "(" + A + ")" + op + "(" + B + ")"
	case 3:
		w = "!(" + A + ")"
	}
	q := "select key, value where " + w
	st := vSymStore(n, 1, 1, 1, 2, "ab", "12")
	plan, err := NewOptimizer(q).BuildPlan(st)
	vAssert(err == nil, "C14/well-typed-statement-rejected")
	for mode := 0; mode < 2; mode++ {
		if mode == 1 {
			plan, err = NewOptimizer(q).BuildPlan(st)
			vAssert(err == nil, "C14/well-typed-statement-rejected")
		}
		var r vRows
		if mode == 0 {
			r = vDrainNext(plan, n+1)
		} else {
			r = vDrainBatch(plan, n+1)
		}
		if r.err != nil {
			vAssert(!vIsOperandTypeError(r.err), "C14/accepted-statement-fails-with-an-operand-type-error")
			vCover("other-error")
		}
	}
	vCover("accepted")
}

// single-fault statements: each must be rejected at build time with zero storage calls
var vC14Faulty = []string{
	// operator applied to operand types it does not support
	"select * where key = 1", "select * where 1 = key", "select * where key > 1", "select * where int(value) > 'a'",
	"select * where key ^= 1", "select * where int(value) ^= 1", "select * where key + 1 = 'a'", "select * where key - 'a' = 'b'",
	"select * where int(value) * 'a' = 1", "select * where 'a' / 2 = 1", "select * where is_int(value) > true", "select * where key = true",
	"select * where is_int(value) = 'true'", "select * where key in ('a', 1)", "select * where key in (1, 2)", "select * where int(value) in ('a')",
	"select * where key between 'a' and 1", "select * where key between 1 and 2", "select * where int(value) between 'a' and 'b'", "select * where key in 'a'",
	"select * where key in upper(key)", "select * where key ~= 1",
	// non-Boolean WHERE / ! / & operands
	"select * where key", "select * where int(value)", "select * where 'a' + 'b'", "select * where 1 + 2", "select * where upper(key)",
	"select * where !key", "select * where !(int(value))", "select * where !(key + 'a')", "select * where !upper(key)",
	"select * where key = 'a' & strlen(value)", "select * where key & value", "select * where key = 'a' | 'b'", "select * where 1 and key = 'a'",
	"select * where !(key = 'a' & 1)", "select * where !(!(key))",
	"select * where key and value", "select * where 'a' or 'b'", "select * where int(value) and strlen(key)", "select * where key = 'a' or upper(value)",
	// the fault under !, inside function arguments, select fields
	"select * where !(key = 1)", "select * where !(key ^= 1)", "select * where !(int(value) > 'a')", "select * where upper(key + 1) = 'A'",
	"select * where strlen(key - 'a') = 1", "select * where int(value * 2) = 1", "select key + 1 where key = 'a'", "select upper(1 + 'a') where key = 'a'",
	"select key, int(value) - 'a' where key = 'a'", "select * where is_int(key = 1)", "select * where key in (upper(1 + 'a'))",
	"select * where key between 'a' and 'b' + 1", "select * where substr(key, 0, 1 + 'a') = 'a'", "select * where join(',', key + 1) = 'a'",
	// unknown function, wrong argument count
	"select * where foo(key) = 'a'", "select foo(key) where key = 'a'", "select * where upper() = 'A'", "select * where upper(key, key) = 'A'",
	"select upper() where key = 'a'", "select substr(key, 1) where key = 'a'", "select * where strlen() = 1", "select * where int(value, 1) = 1",
	"select * where !(foo(key) = 'a')", "select is_int() where key = 'a'", "select key where split(value) = 'a'", "select len() where key = 'a'",
	"select * where is_int(value, key)", "select count(1, 2) where key = 'a'", "select sum() where key = 'a'", "select foo(key), count(1) where key = 'a'",
	// the same fault next to a correct use of the same function or operator (before and after it)
	"select * where int(value) > 1 & int(value, key) < 5", "select * where int(value, key) > 1 & int(value) < 5",
	"select * where upper(upper(key, key)) = 'K'", "select * where upper(upper(key), key) = 'K'",
	"select upper(key), upper(value, key) where key = 'a'", "select upper(), upper(key) where key = 'a'",
	"select strlen(key), strlen(value) where strlen() = 1", "select * where strlen(key) = 1 | strlen(key, value) = 2",
	"put ('a', upper('b') + upper('c', 'd'))", "remove upper('a'), upper('b', 'c')",
	"select * where key in (upper('a'), upper('b', 'c'))", "select * where key between lower('a') and lower('b', 'c')",
	"select * where !(is_int(value)) & is_int(value, key)", "select * where key = 'a' & key = 1", "select * where key = 1 & key = 'a'",
	"select * where key ^= 'a' & value ^= 1", "select * where int(value) + 1 > 2 & int(value) + 'a' > 2",
	"select key, int(value) + 1, int(value) + 'x' where key = 'a'", "select * where foo(key) = 'a' | upper(key) = 'A'", "select * where upper(key) = 'A' | foo(key) = 'a'",
	"select count(1), count(1, 2) where key = 'a'", "select sum(int(value)), sum() where key = 'a'",
	// key / value where the statement form forbids them
	"remove key", "remove value", "remove 'a', key", "remove upper(key)", "remove 'a' + value", "put ('a', value)", "put (value, 'a')",
	"put ('a', upper(value))", "put ('a', 'b' + value)", "put ('a', 'x'), ('b', value)",
	// DELETE needs a Boolean WHERE like SELECT; IN over operands it cannot compare
	"delete where 1", "delete where 'a'", "delete where key", "delete where upper(key)", "delete where int(value) + 1",
	"select * where (key = 'a') in (true, false)", "select * where is_int(value) in (true)", "select key, is_int(value) in (false) where key = 'a'",
	// aggregates outside the select list; a cascaded field access whose index is not a literal
	"select * where count(value) > 1", "select * where key = 'a' & sum(int(value)) > 1", "delete where count(1) > 0", "put ('a', str(count(1)))",
	"remove group_concat('a', ',')", "select * where json(value)['a'][key] = 'x'", "select json(value)['a'][strlen(key)] where key = 'a'",
	"remove json('{}')['a'][key]", "put ('k', json('{}')['a'][value])", "select * where json(value)['a'][1 + 1] = 'x'",
	// wrong kinds in put/remove
	"put ('a', true)", "put (is_int('1'), 'a')", "remove true", "put ('a', split('a', ','))",
}

func VN_C14_FAULTY(tier int) int { return len(vC14Faulty) }

func VH_C14_FAULTY(i, n int) {
	q := vC14Faulty[i]
	st := vSymStore(n, 1, 1, 1, 1, "ab", "12")
	_, err := NewOptimizer(q).BuildPlan(st)
	vAssert(err != nil, "C14/statically-wrong-statement-accepted")
	vAssert(len(st.log) == 0, "C14/storage-accessed-before-rejection")
	vRenderErr(q, err)
	vCover("rejected")
}

// Fault placement grid: every faulty fragment substituted at every syntactic position. A
// statement that contains a fault stays statically wrong whatever surrounds it, so the whole
// cross product must be rejected; each context with a well-typed filler must be accepted
// (otherwise the rejection would say nothing about the fault).
type vC14Ctx struct {
	text string // '@' marks the position
	kind byte   // kind of operand the position takes: t, n, b
}

var vC14Contexts = []vC14Ctx{
	{"select * where @", 'b'}, {"select * where !@", 'b'}, {"select * where !(@)", 'b'}, {"select * where !(!(@))", 'b'},
	{"select * where @ & key = 'a'", 'b'}, {"select * where key = 'a' | @", 'b'}, {"select * where is_int(value) and @", 'b'},
	{"select * where @ or key ^= 'a'", 'b'}, {"select key, @ where key ^= 'a'", 'b'}, {"delete where @", 'b'},
	{"select * where (@) = true", 'b'},
	// in a select field that is not the last one
	{"select @, key where key = 'a'", 't'}, {"select @ as f, value, key where key ^= 'a'", 't'}, {"select key, @, value where key = 'a'", 'n'},
	{"select @, upper(key) as u where u = 'A'", 'b'}, {"select @, count(1) where key ^= 'a' group by key", 't'},
	// behind an operand the expression optimizer folds away, and as the left operand of a field access
	{"select * where false & @", 'b'}, {"select * where true | @", 'b'}, {"select * where key = 'a' & (false & @)", 'b'},
	{"select * where false & @ = 'a'", 't'}, {"select * where json(@)['a'] = 'x'", 't'}, {"select * where split(@, ',')[0] = 'x'", 't'},
	{"select json(@)['a']['b'] where key = 'a'", 't'}, {"select * where true | strlen(@) = 1", 't'},
	{"select * where @ = 'a'", 't'}, {"select * where 'a' = @", 't'}, {"select * where upper(@) = 'A'", 't'},
	{"select * where key in ('k', @)", 't'}, {"select * where key in (@, 'k')", 't'}, {"select * where key between 'a' and @", 't'},
	{"select * where key between @ and 'z'", 't'}, {"select @ where key = 'a'", 't'}, {"select key, @ as f where key = 'a'", 't'},
	{"select * where strlen(@) = 1", 't'}, {"select * where !(@ = 'a')", 't'}, {"select * where join(',', 'a', @) = 'a'", 't'},
	{"select * where substr(@, 0, 1) = 'a'", 't'}, {"select * where key = 'a' & value ^= @", 't'}, {"delete where key ^= 'a' & value = @", 't'},
	{"put ('a', @)", 't'}, {"put (@, 'a')", 't'}, {"put ('a', 'b'), ('c', 'd' + @)", 't'}, {"remove @", 't'}, {"remove 'a', @", 't'},
	{"select * where @ > 1", 'n'}, {"select * where 1 < @", 'n'}, {"select * where int(value) + @ = 2", 'n'}, {"select * where @ * 2 = 2", 'n'},
	{"select * where int(value) in (1, @)", 'n'}, {"select * where int(value) between 0 and @", 'n'}, {"select * where substr(key, @, 1) = 'a'", 'n'},
	{"select @ where key = 'a'", 'n'}, {"select * where !(@ = 1)", 'n'}, {"select key, sum(@) where key ^= 'a' group by key", 'n'},
}

var vC14Fragments = []string{
	"(key + 1)", "upper(key, key)", "upper()", "foo(key)", "lower(key - 'a')", "(int(value) * 'a')", "('a' / 2)", "strlen()", "int(value, 1)",
	"!key", "!!key", "!(!key)", "!!'a'", "!!1", "!(!(int(value)))", "!!(key + 'a')", "!upper(key)",
	"(key = 1)", "(int(value) > 'a')", "(key in (1))", "(key between 'a' and 1)", "!(key = 1)", "is_int(key = 1)", "upper(1 + 'a')",
	"(key ^= 1)", "(1 and key = 'a')", "(key = 'a' | 'b')",
}

func VN_C14_CTX(tier int) int  { return len(vC14Contexts) }
func VN_C14_FRAG(tier int) int { return len(vC14Fragments) }

func vFill(ctx, frag string) string {
	out := ""
	for i := 0; i < len(ctx); i++ {
		if ctx[i] == '@' {
			out += frag
		} else {
			out += string(ctx[i])
		}
	}
	return out
}

// VH_C14_GRID(c, f, n): fragment f at position c.
func VH_C14_GRID(c, f, n int) {
	ctx := vC14Contexts[c]
	good := map[byte]string{'t': "'a'", 'n': "1", 'b': "(key = 'a')"}[ctx.kind]
	if ctx.kind == 'n' && vContains(ctx.text, "sum(") {
		good = "int(value)"
	}
	_, err := NewOptimizer(vFill(ctx.text, good)).BuildPlan(vSymStore(n, 1, 1, 1, 1, "ab", "12"))
	vAssert(err == nil, "harness/C14-context-rejected-with-a-well-typed-operand")
	q := vFill(ctx.text, vC14Fragments[f])
	st := vSymStore(n, 1, 1, 1, 1, "ab", "12")
	_, err = NewOptimizer(q).BuildPlan(st)
	vAssert(err != nil, "C14/statically-wrong-statement-accepted")
	vAssert(len(st.log) == 0, "C14/storage-accessed-before-rejection")
	vRenderErr(q, err)
	vCover("rejected")
}

// Operator/operand-kind grid: every binary operator applied to every pair of operand forms whose
// kinds it does not support must be refused, whatever the syntactic form of the operands
// (literal, field, call, parenthesised expression, negation).
var vC14Forms = []struct {
	text string
	kind byte
}{
	{"'a'", 't'}, {"key", 't'}, {"upper(key)", 't'}, {"(key + 'x')", 't'},
	{"1", 'n'}, {"strlen(key)", 'n'}, {"(int(value) + 1)", 'n'}, {"1.5", 'n'},
	{"true", 'b'}, {"is_int(value)", 'b'}, {"(value = '1')", 'b'}, {"!(key = 'a')", 'b'},
	{"split(value, ',')", 'l'}, {"list(1, 2)", 'l'},
}

var vC14BinOps = []string{"+", "-", "*", "/", "=", "!=", ">", "<=", "^="}

func vC14Supported(op string, l, r byte) bool {
	switch op {
	case "+":
		return l == r && (l == 't' || l == 'n')
	case "-", "*", "/":
		return l == 'n' && r == 'n'
	case "=", "!=":
		return l == r // list = list is not judged (the documentation is silent): skipped
	case ">", "<=":
		return l == r && (l == 't' || l == 'n')
	}
	return l == 't' && r == 't' // ^=
}

func VN_C14_FORMS(tier int) int { return len(vC14Forms) }
func VN_C14_OPS(tier int) int   { return len(vC14BinOps) }

// VH_C14_KINDS(l, r, op, ctx): ctx 0 select field, 1 function argument in WHERE, 2 WHERE operand / WHERE itself.
func VH_C14_KINDS(l, r, op, ctx int) {
	L, R, o := vC14Forms[l], vC14Forms[r], vC14BinOps[op]
	if vC14Supported(o, L.kind, R.kind) {
		return
	}
	e := "(" + L.text + " " + o + " " + R.text + ")"
	var q string
	switch ctx {
	case 0:
		q = "select key, " + e + " where key ^= 'a'"
	case 1:
		q = "select * where is_int(" + e + ") | key = 'a'"
	default:
		q = "select * where " + e + " = " + e
	}
	st := vSymStore(1, 1, 1, 1, 1, "ab", "12")
	_, err := NewOptimizer(q).BuildPlan(st)
	vAssert(err != nil, "C14/statically-wrong-statement-accepted")
	vAssert(len(st.log) == 0, "C14/storage-accessed-before-rejection")
	vRenderErr(q, err)
	vCover("rejected")
}
