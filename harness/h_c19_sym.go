//go:build verif

package kvql

// the concurrent run exists only in the native replay build
func vConcurrentRun(q string, st *vStore, n int) bool { return true }
