//go:build verif || verifreplay

package kvql

// C17 — reported error positions lie inside the query and render with an aligned caret.

func vSpaces(n int) string {
	b := make([]byte, n)
	for i := range b {
		b[i] = ' '
	}
	return string(b)
}

// body bytes: never a space, any 11 consecutive bytes occur once in a window of 94
func vBody(L int) string {
	b := make([]byte, L)
	for i := range b {
		b[i] = byte(33 + i%94)
	}
	return string(b)
}

func vSplitLines(s string) []string {
	var lines []string
	start := 0
	for i := 0; i < len(s); i++ {
		if s[i] == '\n' {
			lines = append(lines, s[start:i])
			start = i + 1
		}
	}
	return append(lines, s[start:])
}

// vCheckRendering checks the rendered message of a positional error bound to query q.
// pos is the error's position (-1 = end of input), pad its padding.
func vCheckRendering(out, q string, pos, pad int) {
	lines := vSplitLines(out)
	vAssert(len(lines) >= 3, "C17/L2-rendering-has-query-caret-message-lines")
	line1, line2 := lines[0], lines[1]
	caret := -1
	for i := 0; i < len(line2); i++ {
		if line2[i] != ' ' {
			caret = i
			break
		}
	}
	vAssert(caret >= 0 && caret+3 == len(line2) && line2[caret:] == "^--", "C17/L2-caret-line-malformed")
	col := caret - pad
	if pos == -1 {
		vAssert(col >= 0 && col <= len(line1), "C17/L2-end-of-input-caret-outside-the-shown-text")
		return
	}
	vAssert(col >= 0 && col < len(line1), "C17/L2-caret-outside-the-shown-text")
	for j := -5; j <= 5; j++ {
		if col+j < 0 || col+j >= len(line1) || pos+j < 0 || pos+j >= len(q) {
			continue
		}
		if q[pos+j] == ' ' || line1[col+j] == '.' && (col+j < 4 || col+j >= len(line1)-4) {
			continue // blanks around the body and the ellipses are not part of the comparison
		}
		vAssert(line1[col+j] == q[pos+j], "C17/L2-caret-not-under-the-character-at-the-offset")
	}
}

// VH_C17_L2(L, a, c, kind): query = a blanks + body(L) + c blanks; pos and padding are solver variables.
func VH_C17_L2(L, a, c, kind int) {
	q := vSpaces(a) + vBody(L) + vSpaces(c)
	if L == 0 {
		vCover("empty-body")
	}
	pi := vNondetInt("pos", -1, L-1) // -1 = end of input, else index of a body byte
	pos := vIteInt(pi < 0, -1, a+pi)
	pad := vNondetInt("pad", 0, 9)
	var out string
	if kind == 0 {
		e := &SyntaxError{Message: "m", Pos: pos, Padding: pad}
		e.BindQuery(q)
		out = e.Error()
	} else {
		e := &ExecuteError{Message: "m", Pos: pos, Padding: pad}
		e.BindQuery(q)
		out = e.Error()
	}
	if q == "" {
		return // an unbound (empty) query renders in the one-line form by design
	}
	p := vConcretize(pos)
	pd := vConcretize(pad)
	vCheckRendering(out, q, p, pd)
	vCover("rendered")
}

// vCheckErrPos: C17/L1 — a positional error carries -1 or an offset inside the query; for
// syntax errors the offset is 0 or the start of one of the query's tokens.
func vCheckErrPos(q string, err error) {
	switch e := err.(type) {
	case *SyntaxError:
		ok := e.Pos == -1 || e.Pos == 0
		if !ok {
			for _, t := range NewLexer(q).Split() {
				if t.Pos == e.Pos {
					ok = true
				}
			}
		}
		vAssert(ok, "C17/L1-syntax-error-position-is-not-a-token-start")
		// independent of the library's own lexer: a token never starts at a blank, and it starts
		// at a boundary (first byte, after a delimiter, or at a delimiter)
		if e.Pos > 0 && e.Pos < len(q) {
			vAssert(q[e.Pos] != ' ', "C17/L1-syntax-error-position-is-a-blank")
			vAssert(vOr(vIsDelim(q[e.Pos-1]), vIsDelim(q[e.Pos])), "C17/L1-syntax-error-position-is-inside-a-word")
		}
		vAssert(e.Pos >= -1 && e.Pos < len(q) || e.Pos == 0, "C17/L1-position-outside-the-query")
	case *ExecuteError:
		vAssert(e.Pos >= -1 && (e.Pos < len(q) || e.Pos == 0), "C17/L1-position-outside-the-query")
	}
}

// vRenderErr binds and renders an error, checking position and rendering (C06 + C17).
func vRenderErr(q string, err error) {
	if err == nil {
		return
	}
	vCheckErrPos(q, err)
	if b, ok := err.(QueryBinder); ok {
		b.BindQuery(q)
	}
	out := err.Error()
	switch e := err.(type) {
	case *SyntaxError:
		if q != "" {
			vCheckRendering(out, q, e.Pos, e.Padding)
		}
	case *ExecuteError:
		if q != "" {
			vCheckRendering(out, q, e.Pos, e.Padding)
		}
	}
}

// erroneous statements: single-token deletions of valid statements
var vC17Valid = []string{
	"select key, int(value) as n where key ^= 'k' & n > 10 order by n desc limit 5",
	"select count(1), substr(key, 0, 2) as p where key between 'k' and 'l' group by p",
	"put ('k1', 'v1'), ('k2', upper('v' + key))",
	"delete where key in ('k1', 'k2') and value ~= '^v' limit 10",
	"select * where (key = 'a' | value != 'b') & !(strlen(value) >= 3)",
	"select key, json(value)['x']['y'], split(value, ',')[1] where key ^= 'k' & int(json(value)['t']) >= 1",
	"remove 'a', 'b' + 'c'",
}

func VN_C17_L1(tier int) int { return len(vC17Valid) }

// VH_C17_L1(si, lead): delete one token (solver-chosen via vChoose), or replace it, then parse
// and plan; any error must carry a valid position and render aligned.
func VH_C17_L1(si, lead, edit int) {
	base := vC17Valid[si]
	toks := NewLexer(base).Split()
	di := vChoose("tok", len(toks))
	t := toks[di]
	end := t.Pos + len(t.Data)
	if t.Tp == STRING {
		end += 2
	}
	var q string
	switch edit {
	case 0: // delete the token
		q = base[:t.Pos] + base[end:]
	case 1: // replace it by a stray operator
		q = base[:t.Pos] + "^=" + base[end:]
	case 2: // duplicate it
		q = base[:end] + " " + base[t.Pos:]
	case 3: // a blank typed into the token (two-character operators, words, literals)
		if end-t.Pos < 2 {
			return
		}
		mid := t.Pos + (end-t.Pos)/2
		q = base[:mid] + vSpaces(1+lead%2) + base[mid:]
	default: // replace it by one or two arbitrary bytes, one representative per lexer class
		q = base[:t.Pos] + vNondetString("r", 1, 2, vLexAlpha11) + base[end:]
	}
	q = vSpaces(lead) + q
	st := vNewStoreFrom([][]byte{[]byte("k1")}, [][]byte{[]byte("{\"x\":1}")})
	plan, err := NewOptimizer(q).BuildPlan(st)
	if err != nil {
		vRenderErr(q, err)
		vCover("build-error")
		return
	}
	r := vDrainBatch(plan, 3)
	if r.err != nil {
		vRenderErr(q, r.err)
		vCover("exec-error")
	}
}
