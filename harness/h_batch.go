//go:build verif || verifreplay

package kvql

import "bytes"

// Batch mechanics: stores larger than the batch size with an arbitrary pattern of rejected
// rows, on every access path, with and without aliases (chunk cache), in both modes.
// Keys are concrete (a0, a1, ...), each value is one symbolic byte, so "which rows the filter
// rejects" is decided by the solver while path counts stay at 2^n. Registered under C01 (rows
// against the reference), C03 (mode agreement), C05 (alias columns, cache) and C06 (no panic).

type vBatchStmt struct {
	fields string                          // select list after "key"
	where  string                          // predicate text
	sel    func(k, v []byte) bool          // reference selection
	cols   []func(k, v []byte) (any, bool) // reference values of the extra columns (text when bool is false, int64 otherwise)
	valpha string
}

func vTextCol(f func(k, v []byte) []byte) func(k, v []byte) (any, bool) {
	return func(k, v []byte) (any, bool) { return f(k, v), false }
}
func vIntCol(f func(k, v []byte) int64) func(k, v []byte) (any, bool) {
	return func(k, v []byte) (any, bool) { return f(k, v), true }
}

var vBatchStmts = []vBatchStmt{
	// full scan, plain
	{", value", "value = 'x'", func(k, v []byte) bool { return bytes.Equal(v, []byte("x")) },
		[]func(k, v []byte) (any, bool){vTextCol(func(k, v []byte) []byte { return v })}, "xy"},
	// prefix scan
	{", value", "key ^= 'a' & value = 'x'", func(k, v []byte) bool { return bytes.Equal(v, []byte("x")) },
		[]func(k, v []byte) (any, bool){vTextCol(func(k, v []byte) []byte { return v })}, "xy"},
	// range scan
	{", value", "key >= 'a0' & key <= 'a9' & value = 'x'", func(k, v []byte) bool { return bytes.Equal(v, []byte("x")) },
		[]func(k, v []byte) (any, bool){vTextCol(func(k, v []byte) []byte { return v })}, "xy"},
	// point reads
	{", value", "key in ('a0', 'a1', 'a2', 'a3', 'a4', 'a5', 'zz') & value = 'x'", func(k, v []byte) bool { return k[1] <= '5' && bytes.Equal(v, []byte("x")) },
		[]func(k, v []byte) (any, bool){vTextCol(func(k, v []byte) []byte { return v })}, "xy"},
	// alias used once in WHERE (chunk cache: filter chunk -> projection)
	{", upper(value) as u", "u = 'X'", func(k, v []byte) bool { return bytes.Equal(vUpper(v), []byte("X")) },
		[]func(k, v []byte) (any, bool){vTextCol(func(k, v []byte) []byte { return vUpper(v) })}, "xy"},
	// alias used three times in WHERE, result of an operator written in place
	{", int(value) as n", "n > 0 & 6 > n * 2 & n < 3", func(k, v []byte) bool {
		n := vDecimalValue(v)
		return vAnd(n > 0, vAnd(6 > n*2, n < 3))
	}, []func(k, v []byte) (any, bool){vIntCol(func(k, v []byte) int64 { return vDecimalValue(v) })}, "0123"},
	// alias with prefix scan and a second aliased field
	{", int(value) as n, strlen(key) as l", "key ^= 'a' & (n = 1 | n = 3) & l = 2", func(k, v []byte) bool {
		n := vDecimalValue(v)
		return vOr(n == 1, n == 3)
	}, []func(k, v []byte) (any, bool){vIntCol(func(k, v []byte) int64 { return vDecimalValue(v) }), vIntCol(func(k, v []byte) int64 { return int64(len(k)) })}, "0123"},
	// alias over point reads
	{", upper(value) as u", "key in ('a0', 'a1', 'a2', 'a3', 'a4', 'a5') & u = 'X' & u != 'Y'", func(k, v []byte) bool { return k[1] <= '5' && bytes.Equal(vUpper(v), []byte("X")) },
		[]func(k, v []byte) (any, bool){vTextCol(func(k, v []byte) []byte { return vUpper(v) })}, "xy"},
	// alias inside a call argument and in a second field
	{", upper(value) as u, join('-', u, key) as j", "strlen(u) = 1 & u = 'X'", func(k, v []byte) bool { return bytes.Equal(vUpper(v), []byte("X")) },
		[]func(k, v []byte) (any, bool){vTextCol(func(k, v []byte) []byte { return vUpper(v) }), vTextCol(func(k, v []byte) []byte { return vCat(vCat(vUpper(v), []byte("-")), k) })}, "xy"},
	// an alias used by a vector function in a second select field: the projection chunk starts
	// with the same key as a filter chunk whenever the first scanned row is accepted
	{", upper(value) as u, lower(u) as w", "u != 'Z'", func(k, v []byte) bool { return vNot(bytes.Equal(vUpper(v), []byte("Z"))) },
		[]func(k, v []byte) (any, bool){vTextCol(func(k, v []byte) []byte { return vUpper(v) }), vTextCol(func(k, v []byte) []byte { return vLower(vUpper(v)) })}, "xyz"},
	{", int(value) as n, n + 1 as m", "n != 2", func(k, v []byte) bool { return vDecimalValue(v) != 2 },
		[]func(k, v []byte) (any, bool){vIntCol(func(k, v []byte) int64 { return vDecimalValue(v) }), vIntCol(func(k, v []byte) int64 { return vDecimalValue(v) + 1 })}, "123"},
}

func VN_BATCH(tier int) int { return len(vBatchStmts) }

func vBatchRowsMatch(rows [][]Column, st *vStore, s vBatchStmt) bool {
	ok := true
	cnt := 0
	for i := range st.keys {
		k, v := st.keys[i], st.vals[i]
		sel := s.sel(k, v)
		cnt = cnt + vIteInt(sel, 1, 0)
		found := false
		for _, row := range rows {
			if len(row) != 1+len(s.cols) {
				return false
			}
			same := vColEq(row[0], k)
			for j, c := range s.cols {
				want, isInt := c(k, v)
				if isInt {
					x, isI := row[1+j].(int64)
					same = vAnd(same, isI && x == want.(int64))
				} else {
					same = vAnd(same, vColEq(row[1+j], want.([]byte)))
				}
			}
			found = vOr(found, same)
		}
		ok = vAnd(ok, found == sel)
	}
	ok = vAnd(ok, cnt == len(rows))
	for j := 0; j+1 < len(rows); j++ {
		a, _ := vColBytes(rows[j][0])
		b, _ := vColBytes(rows[j+1][0])
		ok = vAnd(ok, bytes.Compare(a, b) < 0)
	}
	return ok
}

func VH_BATCH(si, n, B, cache int) {
	s := vBatchStmts[si]
	keys := make([][]byte, n)
	vals := make([][]byte, n)
	for i := 0; i < n; i++ {
		keys[i] = []byte{'a', byte('0' + i)}
		vals[i] = vNondetBytes("v"+vItoa(i), 1, 1, s.valpha)
	}
	st := vNewStoreFrom(keys, vals)
	PlanBatchSize = B
	EnableFieldCache = cache == 1
	q := "select key" + s.fields + " where " + s.where
	pb, err := NewOptimizer(q).BuildPlan(st.clone())
	vAssert(err == nil, "BATCH/statement-rejected")
	rb := vDrainBatch(pb, n+1)
	pn, err := NewOptimizer(q).BuildPlan(st.clone())
	vAssert(err == nil, "BATCH/statement-rejected")
	rn := vDrainNext(pn, n+1)
	EnableFieldCache = true
	vAssert(rb.err == nil, "BATCH/batch-mode-error")
	vAssert(rn.err == nil, "BATCH/row-mode-error")
	vAssert(vBatchRowsMatch(rb.rows, st, s), "BATCH/batch-mode-rows-differ-from-reference")
	vAssert(vBatchRowsMatch(rn.rows, st, s), "BATCH/row-mode-rows-differ-from-reference")
	vAssert(vSameRows(rn.rows, rb.rows), "BATCH/row-and-batch-results-differ")
	vCover("compared")
}

// VH_BATCH_DEL: delete over stores larger than the batch size, every pattern of selected rows,
// with and without LIMIT; the store afterwards must be the prior state minus the selected slice.
var vBatchDelLimits = [][2]int{{-1, -1}, {0, 1}, {1, 2}, {0, 3}, {2, 9}, {1, 0}}

func VN_BATCH_DEL(tier int) int { return len(vBatchDelLimits) }

func VH_BATCH_DEL(li, n, B, access int) {
	keys := make([][]byte, n)
	vals := make([][]byte, n)
	for i := 0; i < n; i++ {
		keys[i] = []byte{'a', byte('0' + i)}
		vals[i] = vNondetBytes("v"+vItoa(i), 1, 1, "xy")
	}
	st := vNewStoreFrom(keys, vals)
	PlanBatchSize = B
	where := []string{"value = 'x'", "key ^= 'a' & value = 'x'", "key >= 'a0' & value = 'x'", "key in ('a0', 'a1', 'a2', 'a3', 'a4', 'a5') & value = 'x'"}[access]
	q := "delete where " + where
	s, c := vBatchDelLimits[li][0], vBatchDelLimits[li][1]
	if s >= 0 {
		q += " limit " + vItoa(s) + ", " + vItoa(c)
	}
	plan, err := NewOptimizer(q).BuildPlan(st)
	vAssert(err == nil, "BATCH/delete-rejected")
	r := vDrainBatch(plan, 2)
	vAssert(r.err == nil, "BATCH/delete-error")
	// rank of each selected pair among the selected ones decides whether the limit keeps it
	ok := true
	rank := 0
	for i := 0; i < n; i++ {
		sel := bytes.Equal(vals[i], []byte("x"))
		gone := sel
		if s >= 0 {
			gone = vAnd(sel, vAnd(rank >= s, rank < s+c))
		}
		rank = rank + vIteInt(sel, 1, 0)
		_, present := st.lookup(keys[i])
		ok = vAnd(ok, present == vNot(gone))
	}
	vAssert(ok, "BATCH/delete-removes-exactly-the-selected-slice")
	vAssert(len(st.keys) <= n, "BATCH/delete-adds-pairs")
	vCover("deleted")
}
