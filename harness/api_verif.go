//go:build verif

package kvql

// Intrinsics of the symbolic engine (gosym). They have no bodies here: the engine intercepts
// calls to them. The native bodies used for replay are in api_replay.go (tag verifreplay).

func vNondetByte(tag string, alphabet string) byte
func vNondetInt(tag string, lo, hi int) int
func vNondetInt64(tag string) int64
func vNondetBool(tag string) bool
func vNondetBytes(tag string, minLen, maxLen int, alphabet string) []byte
func vNondetString(tag string, minLen, maxLen int, alphabet string) string
func vNondetFloatPool(tag string, pool []float64) float64
func vChoose(tag string, n int) int
func vAssume(c bool)
func vAssert(c bool, id string)
func vCover(id string)
func vKnown(id string, c bool)
func vLog(v any)
func vIsReplay() bool
func vTry(f func()) (msg string, panicked bool)
func vConcretize(x int) int
func vSharedWrites() []string
func vMarkShared()
func vReverseMaps(on bool)
func vAllowSymMul(on bool)
func vAnd(a, b bool) bool
func vOr(a, b bool) bool
func vNot(a bool) bool
func vImplies(a, b bool) bool
func vIteInt(c bool, a, b int) int
func vIteByte(c bool, a, b byte) byte
func vFreeParseFloat(on bool)
func vLazyFormat(on bool)
