//go:build verif || verifreplay

package kvql

import (
	"bytes"
	"errors"
)

// vStore is the reference storage used by every harness (storage contract of DESIGN.md §1):
// keys strictly ascending, Seek(k) = first key >= k, cursors work on a snapshot, every
// operation is logged and may fail with an injected error.

type vCall struct {
	Op  string // Cursor Seek Next Get Put BatchPut Delete BatchDelete
	Key []byte // argument key (Seek, Get, Put, Delete) or returned key (Next)
	N   int    // number of items (BatchPut, BatchDelete)
}

type vStore struct {
	keys    [][]byte
	vals    [][]byte
	log     []vCall
	faultAt int // index (in log order) of the operation that fails; -1 = never
	fault   error
	fired   bool
	mutKeys [][]byte // keys passed to mutating operations, in order
	mutVals [][]byte // values written (nil for deletions)
}

var vInjected = errors.New("injected storage fault")

func vNewStoreFrom(keys, vals [][]byte) *vStore {
	return &vStore{keys: keys, vals: vals, faultAt: -1, fault: vInjected}
}

// vSymStore builds a store of n pairs with symbolic content. Key lengths range over
// [kmin,kmax], value lengths over [vmin,vmax] (each length is a separate path).
func vSymStore(n, kmin, kmax, vmin, vmax int, kalpha, valpha string) *vStore {
	keys := make([][]byte, n)
	vals := make([][]byte, n)
	for i := 0; i < n; i++ {
		keys[i] = vNondetBytes("k"+vItoa(i), kmin, kmax, kalpha)
		vals[i] = vNondetBytes("v"+vItoa(i), vmin, vmax, valpha)
	}
	for i := 0; i+1 < n; i++ {
		vAssume(bytes.Compare(keys[i], keys[i+1]) < 0)
	}
	return vNewStoreFrom(keys, vals)
}

func vItoa(i int) string {
	if i < 10 {
		return string([]byte{byte('0' + i)})
	}
	return vItoa(i/10) + string([]byte{byte('0' + i%10)})
}

func (s *vStore) clone() *vStore {
	c := &vStore{faultAt: s.faultAt, fault: s.fault}
	c.keys = append([][]byte(nil), s.keys...)
	c.vals = append([][]byte(nil), s.vals...)
	return c
}

// op logs an operation and reports whether the injected fault fires on it.
func (s *vStore) op(name string, key []byte, n int) error {
	idx := len(s.log)
	s.log = append(s.log, vCall{Op: name, Key: key, N: n})
	if idx == s.faultAt {
		s.fired = true
		return s.fault
	}
	return nil
}

func (s *vStore) find(key []byte) int {
	for i, k := range s.keys {
		if bytes.Equal(k, key) {
			return i
		}
	}
	return -1
}

func (s *vStore) Get(key []byte) ([]byte, error) {
	if err := s.op("Get", key, 0); err != nil {
		return nil, err
	}
	if i := s.find(key); i >= 0 {
		return s.vals[i], nil
	}
	return nil, nil
}

func (s *vStore) put(key, val []byte) {
	s.mutKeys = append(s.mutKeys, key)
	s.mutVals = append(s.mutVals, val)
	pos := len(s.keys)
	for i, k := range s.keys {
		c := bytes.Compare(k, key)
		if c == 0 {
			s.vals[i] = val
			return
		}
		if c > 0 {
			pos = i
			break
		}
	}
	s.keys = append(s.keys, nil)
	s.vals = append(s.vals, nil)
	copy(s.keys[pos+1:], s.keys[pos:])
	copy(s.vals[pos+1:], s.vals[pos:])
	s.keys[pos] = key
	s.vals[pos] = val
}

func (s *vStore) del(key []byte) {
	s.mutKeys = append(s.mutKeys, key)
	s.mutVals = append(s.mutVals, nil)
	if i := s.find(key); i >= 0 {
		s.keys = append(s.keys[:i:i], s.keys[i+1:]...)
		s.vals = append(s.vals[:i:i], s.vals[i+1:]...)
	}
}

func (s *vStore) Put(key, val []byte) error {
	if err := s.op("Put", key, 1); err != nil {
		return err
	}
	s.put(key, val)
	return nil
}

func (s *vStore) BatchPut(kvs []KVPair) error {
	if err := s.op("BatchPut", nil, len(kvs)); err != nil {
		return err
	}
	for _, kv := range kvs {
		s.put(kv.Key, kv.Value)
	}
	return nil
}

func (s *vStore) Delete(key []byte) error {
	if err := s.op("Delete", key, 1); err != nil {
		return err
	}
	s.del(key)
	return nil
}

func (s *vStore) BatchDelete(keys [][]byte) error {
	if err := s.op("BatchDelete", nil, len(keys)); err != nil {
		return err
	}
	for _, k := range keys {
		s.del(k)
	}
	return nil
}

type vCursor struct {
	st   *vStore
	keys [][]byte
	vals [][]byte
	pos  int
}

func (s *vStore) Cursor() (Cursor, error) {
	if err := s.op("Cursor", nil, 0); err != nil {
		return nil, err
	}
	return &vCursor{st: s, keys: append([][]byte(nil), s.keys...), vals: append([][]byte(nil), s.vals...)}, nil
}

func (c *vCursor) Seek(prefix []byte) error {
	if err := c.st.op("Seek", prefix, 0); err != nil {
		return err
	}
	c.pos = len(c.keys)
	for i, k := range c.keys {
		if bytes.Compare(k, prefix) >= 0 {
			c.pos = i
			break
		}
	}
	return nil
}

func (c *vCursor) Next() ([]byte, []byte, error) {
	if c.pos >= len(c.keys) {
		if err := c.st.op("Next", nil, 0); err != nil {
			return nil, nil, err
		}
		return nil, nil, nil
	}
	k, v := c.keys[c.pos], c.vals[c.pos]
	if err := c.st.op("Next", k, 0); err != nil {
		return nil, nil, err
	}
	c.pos++
	return k, v, nil
}

// mutations counts the mutating operations in the log.
func (s *vStore) mutations() int {
	n := 0
	for _, c := range s.log {
		switch c.Op {
		case "Put", "BatchPut", "Delete", "BatchDelete":
			n++
		}
	}
	return n
}

// lookup is Get without logging (oracle side).
func (s *vStore) lookup(key []byte) ([]byte, bool) {
	if i := s.find(key); i >= 0 {
		return s.vals[i], true
	}
	return nil, false
}

// ---------------------------------------------------------------- draining plans

type vRows struct {
	rows [][]Column
	err  error
}

// vDrainNext drains a plan row by row (one ExecuteCtx per statement, README protocol).
func vDrainNext(p FinalPlan, maxRows int) vRows {
	ctx := NewExecuteCtx()
	var out [][]Column
	for i := 0; i <= maxRows; i++ {
		cols, err := p.Next(ctx)
		if err != nil {
			return vRows{out, err}
		}
		if cols == nil {
			return vRows{out, nil}
		}
		out = append(out, cols)
	}
	vAssert(false, "harness/drain-next-does-not-terminate")
	return vRows{out, nil}
}

// vDrainBatch drains a plan in batches, clearing the context after each non-empty batch.
func vDrainBatch(p FinalPlan, maxRows int) vRows {
	ctx := NewExecuteCtx()
	var out [][]Column
	for i := 0; i <= maxRows; i++ {
		rows, err := p.Batch(ctx)
		if err != nil {
			return vRows{out, err}
		}
		if len(rows) == 0 {
			return vRows{out, nil}
		}
		out = append(out, rows...)
		ctx.Clear()
	}
	vAssert(false, "harness/drain-batch-does-not-terminate")
	return vRows{out, nil}
}

// vColBytes views a column as text bytes.
func vColBytes(c Column) ([]byte, bool) {
	switch v := c.(type) {
	case []byte:
		return v, true
	case string:
		return []byte(v), true
	}
	return nil, false
}

// vEqBytes is bytes.Equal as a single boolean term (no fork).
func vEqBytes(a, b []byte) bool { return bytes.Equal(a, b) }
