//go:build verifreplay

package kvql

import (
	"fmt"
	"sync"
)

// vLockedStore makes the reference storage safe for concurrent use (the property assumes a
// thread-safe storage).
type vLockedStore struct {
	mu sync.Mutex
	st *vStore
}

type vLockedCursor struct {
	mu *sync.Mutex
	c  Cursor
}

func (s *vLockedStore) Get(k []byte) ([]byte, error) {
	s.mu.Lock()
	defer s.mu.Unlock()
	return s.st.Get(k)
}
func (s *vLockedStore) Put(k, v []byte) error {
	s.mu.Lock()
	defer s.mu.Unlock()
	return s.st.Put(k, v)
}
func (s *vLockedStore) BatchPut(kvs []KVPair) error {
	s.mu.Lock()
	defer s.mu.Unlock()
	return s.st.BatchPut(kvs)
}
func (s *vLockedStore) Delete(k []byte) error {
	s.mu.Lock()
	defer s.mu.Unlock()
	return s.st.Delete(k)
}
func (s *vLockedStore) BatchDelete(ks [][]byte) error {
	s.mu.Lock()
	defer s.mu.Unlock()
	return s.st.BatchDelete(ks)
}
func (s *vLockedStore) Cursor() (Cursor, error) {
	s.mu.Lock()
	defer s.mu.Unlock()
	c, err := s.st.Cursor()
	if err != nil {
		return nil, err
	}
	return &vLockedCursor{&s.mu, c}, nil
}
func (c *vLockedCursor) Seek(p []byte) error {
	c.mu.Lock()
	defer c.mu.Unlock()
	return c.c.Seek(p)
}
func (c *vLockedCursor) Next() ([]byte, []byte, error) {
	c.mu.Lock()
	defer c.mu.Unlock()
	return c.c.Next()
}

func vRunOnce(q string, s Storage, batch bool, n int) string {
	plan, err := NewOptimizer(q).BuildPlan(s)
	if err != nil {
		if b, ok := err.(QueryBinder); ok {
			b.BindQuery(q)
		}
		return "build error: " + err.Error()
	}
	var r vRows
	if batch {
		r = vDrainBatch(plan, n+2)
	} else {
		r = vDrainNext(plan, n+2)
	}
	return fmt.Sprintf("%v | %v", r.rows, r.err)
}

// vConcurrentRun: 8 goroutines, each with its own plan and context over one thread-safe
// storage holding a private copy of the data per goroutine pair (mutating statements work on
// their own copy so that results stay comparable); every result must equal the sequential one.
func vConcurrentRun(q string, st *vStore, n int) bool {
	want := [2]string{vRunOnce(q, &vLockedStore{st: st.clone()}, false, n), vRunOnce(q, &vLockedStore{st: st.clone()}, true, n)}
	var wg sync.WaitGroup
	ok := true
	var mu sync.Mutex
	shared := &vLockedStore{st: st.clone()}
	readOnly := len(q) > 0 && (q[0] == 's' || q[0] == 'S')
	for g := 0; g < 8; g++ {
		wg.Add(1)
		go func(g int) {
			defer wg.Done()
			var s Storage = shared
			if !readOnly {
				s = &vLockedStore{st: st.clone()}
			}
			got := vRunOnce(q, s, g%2 == 1, n)
			if got != want[g%2] {
				mu.Lock()
				ok = false
				mu.Unlock()
			}
		}(g)
	}
	wg.Wait()
	return ok
}
