//go:build verifreplay

package kvql

import (
	"fmt"
	"sync"
)

// vLockedStore makes the reference storage safe for concurrent use (the property assumes a
// thread-safe storage).
type vLockedStore struct {
	mu sync.Mutex
	st *vStore
}

type vLockedCursor struct {
	mu *sync.Mutex
	c  Cursor
}

func (s *vLockedStore) Get(k []byte) ([]byte, error) {
	s.mu.Lock()
	defer s.mu.Unlock()
	return s.st.Get(k)
}
func (s *vLockedStore) Put(k, v []byte) error {
	s.mu.Lock()
	defer s.mu.Unlock()
	return s.st.Put(k, v)
}
func (s *vLockedStore) BatchPut(kvs []KVPair) error {
	s.mu.Lock()
	defer s.mu.Unlock()
	return s.st.BatchPut(kvs)
}
func (s *vLockedStore) Delete(k []byte) error {
	s.mu.Lock()
	defer s.mu.Unlock()
	return s.st.Delete(k)
}
func (s *vLockedStore) BatchDelete(ks [][]byte) error {
	s.mu.Lock()
	defer s.mu.Unlock()
	return s.st.BatchDelete(ks)
}
func (s *vLockedStore) Cursor() (Cursor, error) {
	s.mu.Lock()
	defer s.mu.Unlock()
	c, err := s.st.Cursor()
	if err != nil {
		return nil, err
	}
	return &vLockedCursor{&s.mu, c}, nil
}
func (c *vLockedCursor) Seek(p []byte) error {
	c.mu.Lock()
	defer c.mu.Unlock()
	return c.c.Seek(p)
}
func (c *vLockedCursor) Next() ([]byte, []byte, error) {
	c.mu.Lock()
	defer c.mu.Unlock()
	return c.c.Next()
}

func vRunOnce(q string, s Storage, batch bool, n int) string {
	plan, err := NewOptimizer(q).BuildPlan(s)
	if err != nil {
		if b, ok := err.(QueryBinder); ok {
			b.BindQuery(q)
		}
		return "build error: " + err.Error()
	}
	var r vRows
	if batch {
		r = vDrainBatch(plan, n+2)
	} else {
		r = vDrainNext(plan, n+2)
	}
	return fmt.Sprintf("%v | %v", r.rows, r.err)
}

// vConcurrentRun: 8 goroutines, each with its own plan and context over its own thread-safe
// storage (a shared storage's mutex would order the goroutines and hide races on library
// state from the race detector); all start together; every result must equal the sequential one.
func vConcurrentRun(q string, st *vStore, n int) bool {
	var wg sync.WaitGroup
	var results [8][]string
	start := make(chan struct{})
	for g := 0; g < 8; g++ {
		wg.Add(1)
		go func(g int) {
			defer wg.Done()
			<-start
			for it := 0; it < 20; it++ {
				results[g] = append(results[g], vRunOnce(q, &vLockedStore{st: st.clone()}, g%2 == 1, n))
			}
		}(g)
	}
	close(start) // the concurrent phase comes first: nothing has warmed any library state yet
	wg.Wait()
	want := [2]string{vRunOnce(q, &vLockedStore{st: st.clone()}, false, n), vRunOnce(q, &vLockedStore{st: st.clone()}, true, n)}
	ok := true
	for g := range results {
		for _, got := range results[g] {
			if got != want[g%2] {
				ok = false
			}
		}
	}
	return ok
}
