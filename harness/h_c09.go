//go:build verif || verifreplay

package kvql

import (
	"bytes"
	"strconv"
)

// C09 — GROUP BY partitions by value tuples and aggregates equal their definitions.

type vGroupExpr struct {
	text  string // select-list text (with alias where needed)
	name  string // name used in GROUP BY
	value func(k, v []byte) []byte
}

var vGroupExprs = []vGroupExpr{
	{"key", "key", func(k, v []byte) []byte { return k }},
	{"value", "value", func(k, v []byte) []byte { return v }},
	{"substr(key, 0, 1) as p", "p", func(k, v []byte) []byte {
		if len(k) == 0 {
			return []byte{}
		}
		return k[:1]
	}},
	{"strlen(key) as l", "l", func(k, v []byte) []byte { return []byte(vItoa(len(k))) }},
	{"upper(key) as u", "u", func(k, v []byte) []byte { return vUpper(k) }},
}

// aggregate expressions over the group's pairs (in scan order); check compares the column
type vAggExpr struct {
	text  string
	check func(col Column, ks, vs [][]byte) bool
}

func vIntsOf(vs [][]byte) []int64 {
	r := make([]int64, len(vs))
	for i, v := range vs {
		r[i] = vDecimalValue(v)
	}
	return r
}

func vSum(xs []int64) int64 {
	var s int64
	for _, x := range xs {
		s += x
	}
	return s
}

func vMin64(xs []int64) int64 {
	m := xs[0]
	for _, x := range xs[1:] {
		m = int64(vIteInt(x < m, int(x), int(m)))
	}
	return m
}

func vMax64(xs []int64) int64 {
	m := xs[0]
	for _, x := range xs[1:] {
		m = int64(vIteInt(x > m, int(x), int(m)))
	}
	return m
}

func vIsInt64(col Column, want int64) bool {
	x, ok := col.(int64)
	return ok && x == want
}

var vAggExprs = []vAggExpr{
	{"count(1)", func(c Column, ks, vs [][]byte) bool { return vIsInt64(c, int64(len(ks))) }},
	{"sum(int(value))", func(c Column, ks, vs [][]byte) bool { return vIsInt64(c, vSum(vIntsOf(vs))) }},
	{"min(int(value))", func(c Column, ks, vs [][]byte) bool { return vIsInt64(c, vMin64(vIntsOf(vs))) }},
	{"max(int(value))", func(c Column, ks, vs [][]byte) bool { return vIsInt64(c, vMax64(vIntsOf(vs))) }},
	{"avg(int(value))", func(c Column, ks, vs [][]byte) bool {
		x, ok := c.(float64)
		return ok && x == float64(vSum(vIntsOf(vs)))/float64(int64(len(vs)))
	}},
	{"sum(int(value)) + 1", func(c Column, ks, vs [][]byte) bool { return vIsInt64(c, vSum(vIntsOf(vs))+1) }},
	{"count(1) * 2", func(c Column, ks, vs [][]byte) bool { return vIsInt64(c, int64(len(ks))*2) }},
	{"group_concat(key, ',')", func(c Column, ks, vs [][]byte) bool {
		var want []byte
		for i, k := range ks {
			if i > 0 {
				want = append(want, ',')
			}
			want = append(want, k...)
		}
		got, ok := vColBytes(c)
		return ok && bytes.Equal(got, want)
	}},
	{"max(int(value)) - min(int(value))", func(c Column, ks, vs [][]byte) bool {
		xs := vIntsOf(vs)
		return vIsInt64(c, vMax64(xs)-vMin64(xs))
	}},
	// arithmetic around aggregates, literals on both sides and in chains the optimizer may re-associate
	{"sum(int(value)) * 3 / 2", func(c Column, ks, vs [][]byte) bool { return vIsInt64(c, vSum(vIntsOf(vs))*3/2) }},
	{"count(1) * 10 / 4", func(c Column, ks, vs [][]byte) bool { return vIsInt64(c, int64(len(ks))*10/4) }},
	{"(sum(int(value)) + count(1)) * 2 - 1", func(c Column, ks, vs [][]byte) bool {
		return vIsInt64(c, (vSum(vIntsOf(vs))+int64(len(ks)))*2-1)
	}},
	{"10 - count(1) - 3", func(c Column, ks, vs [][]byte) bool { return vIsInt64(c, 10-int64(len(ks))-3) }},
	{"2 * sum(int(value)) + 3 * count(1)", func(c Column, ks, vs [][]byte) bool {
		return vIsInt64(c, 2*vSum(vIntsOf(vs))+3*int64(len(ks)))
	}},
	{"sum(int(value)) / count(1) + 7 / 2", func(c Column, ks, vs [][]byte) bool {
		return vIsInt64(c, vSum(vIntsOf(vs))/int64(len(ks))+3)
	}},
	{"sum(int(value)) + 4 + 5", func(c Column, ks, vs [][]byte) bool { return vIsInt64(c, vSum(vIntsOf(vs))+9) }},
	{"max(int(value)) * 2 * 3 - min(int(value)) / 2 / 2", func(c Column, ks, vs [][]byte) bool {
		xs := vIntsOf(vs)
		return vIsInt64(c, vMax64(xs)*6-vMin64(xs)/2/2)
	}},
}

type vC09Tmpl struct {
	groups []int
	aggs   []int
	where  string
	kalpha string
	valpha string
	keep   func(k, v []byte) bool
}

var vC09Tmpls = []vC09Tmpl{
	{[]int{2}, []int{0, 1}, "key >= ''", "ab", "01", nil},
	{[]int{0, 1}, []int{0, 7}, "key >= ''", "ab", "ab", nil},
	{[]int{3}, []int{2, 3, 4}, "key >= ''", "ab", "019", nil},
	{[]int{4, 3}, []int{5, 6}, "key >= ''", "aA", "01", nil},
	{nil, []int{0, 1, 2, 3, 4}, "key >= ''", "ab", "019", nil},
	{[]int{1}, []int{0, 1}, "key >= ''", "ab", "01", nil},
	{[]int{2}, []int{0}, "value != '0'", "ab", "01", func(k, v []byte) bool { return vNot(bytes.Equal(v, []byte("0"))) }},
	{[]int{2, 3, 1}, []int{0}, "key >= ''", "ab", "ab", nil},
	{[]int{1, 0}, []int{0}, "key >= ''", "ab", "ab", nil},
	{[]int{2}, []int{8, 7}, "key >= ''", "ab", "019", nil},
	{nil, []int{0}, "key = 'zz'", "ab", "01", func(k, v []byte) bool { return false }},
	// all byte values: whatever byte an implementation might use to separate tuple members can occur in the data
	{[]int{0, 1}, []int{0}, "key >= ''", "", "", nil},
	{[]int{1, 0}, []int{0}, "key >= ''", "", "", nil},
	{[]int{2}, []int{9, 10, 11, 12}, "key >= ''", "ab", "0139", nil},
	{[]int{1}, []int{13, 14, 15, 16}, "key >= ''", "ab", "0139", nil},
	{nil, []int{9, 13, 16, 12}, "key >= ''", "ab", "0139", nil},
}

func VN_C09(tier int) int { return len(vC09Tmpls) }

func VH_C09(t, n, B int) {
	tm := vC09Tmpls[t]
	st := vSymStore(n, 1, 2, 1, 2, tm.kalpha, tm.valpha)
	PlanBatchSize = B
	q := "select "
	gb := ""
	for i, g := range tm.groups {
		if i > 0 {
			q += ", "
			gb += ", "
		}
		q += vGroupExprs[g].text
		gb += vGroupExprs[g].name
	}
	for i, a := range tm.aggs {
		if i > 0 || len(tm.groups) > 0 {
			q += ", "
		}
		q += vAggExprs[a].text
	}
	q += " where " + tm.where
	if gb != "" {
		q += " group by " + gb
	}
	// reference fold: pairs that pass WHERE, partitioned by tuple equality, groups in order of
	// first member (each equality decision forks; kvql's own map lookups fork the same way)
	var gk, gv [][][]byte // per group: keys, values of members
	var gt [][][]byte     // per group: tuple of group values
	for i := 0; i < n; i++ {
		k, v := st.keys[i], st.vals[i]
		if tm.keep != nil && !tm.keep(k, v) {
			continue
		}
		tuple := make([][]byte, len(tm.groups))
		for j, g := range tm.groups {
			tuple[j] = vGroupExprs[g].value(k, v)
		}
		found := -1
		for gi := range gt {
			same := true
			for j := range tuple {
				same = vAnd(same, bytes.Equal(tuple[j], gt[gi][j]))
			}
			if same {
				found = gi
				break
			}
		}
		if found < 0 {
			gt = append(gt, tuple)
			gk = append(gk, nil)
			gv = append(gv, nil)
			found = len(gt) - 1
		}
		gk[found] = append(gk[found], k)
		gv[found] = append(gv[found], v)
	}
	vKnownC09(tm, st)
	check := func(rows [][]Column, mode string) {
		vAssert(len(rows) == len(gt), "C09/"+mode+"-number-of-groups")
		for gi, row := range rows {
			vAssert(len(row) == len(tm.groups)+len(tm.aggs), "C09/"+mode+"-row-width")
			ok := true
			for j := range tm.groups {
				got, isText := vColBytes(row[j])
				ok = vAnd(ok, isText && bytes.Equal(got, gt[gi][j]))
			}
			vAssert(ok, "C09/"+mode+"-group-value-shown")
			for j, a := range tm.aggs {
				vAssert(vAggExprs[a].check(row[len(tm.groups)+j], gk[gi], gv[gi]), "C09/"+mode+"-aggregate-differs-from-definition")
			}
		}
	}
	pn, err := NewOptimizer(q).BuildPlan(st.clone())
	vAssert(err == nil, "C09/statement-rejected")
	rn := vDrainNext(pn, n+1)
	vAssert(rn.err == nil, "C09/row-mode-error")
	check(rn.rows, "row-mode")
	pb, err := NewOptimizer(q).BuildPlan(st.clone())
	vAssert(err == nil, "C09/statement-rejected")
	rb := vDrainBatch(pb, n+1)
	vAssert(rb.err == nil, "C09/batch-mode-error")
	check(rb.rows, "batch-mode")
	if len(gt) > 1 {
		vCover("several-groups")
	}
	vCover("aggregated")
}

func vKnownC09(tm vC09Tmpl, st *vStore) {
}

// VH_C09_MIX: min / max / sum over a column that mixes integer and float texts
// (exactly representable: d, d.0, d.5). fn: 0 min, 1 max, 2 sum.
func VH_C09_MIX(n, B, fn int) {
	keys := make([][]byte, n)
	vals := make([][]byte, n)
	nums := make([]float64, n)
	for i := 0; i < n; i++ {
		keys[i] = []byte{byte('a' + i)}
		d := vNondetByte("d"+vItoa(i), "012")
		if vChoose("shape"+vItoa(i), 2) == 0 {
			vals[i] = []byte{d}
			nums[i] = float64(vConcretize(int(d - '0')))
		} else {
			h := vNondetByte("h"+vItoa(i), "05")
			vals[i] = []byte{d, '.', h}
			nums[i] = float64(vConcretize(int(d-'0'))) + float64(vConcretize(int(h-'0')))/10
		}
	}
	st := vNewStoreFrom(keys, vals)
	PlanBatchSize = B
	name := []string{"min", "max", "sum"}[fn]
	want := nums[0]
	for _, x := range nums[1:] {
		switch fn {
		case 0:
			if x < want {
				want = x
			}
		case 1:
			if x > want {
				want = x
			}
		default:
			want += x
		}
	}
	q := "select " + name + "(value) where key >= ''"
	for mode := 0; mode < 2; mode++ {
		p, err := NewOptimizer(q).BuildPlan(st.clone())
		vAssert(err == nil, "C09/MIX-statement-rejected")
		var r vRows
		if mode == 0 {
			r = vDrainNext(p, 2)
		} else {
			r = vDrainBatch(p, 2)
		}
		vAssert(r.err == nil && len(r.rows) == 1 && len(r.rows[0]) == 1, "C09/MIX-one-row-expected")
		var got float64
		switch x := r.rows[0][0].(type) {
		case int64:
			got = float64(x)
		case float64:
			got = x
		default:
			vAssert(false, "C09/MIX-result-is-not-a-number")
		}
		vAssert(got == want, "C09/MIX-"+name+"-over-int-and-float-values-differs-from-definition")
	}
	vCover("mixed")
}

// VH_C09_FLOAT: grouping by a float-valued field partitions by the float value: close values
// stay apart, different spellings of one value fall together. Also: a GROUP BY list as long as
// the select list, with an aggregate among the select fields, is an aggregate statement.
var vC09FloatPool = []struct {
	text string
	val  float64
}{{"0.1234561", 0.1234561}, {"0.1234562", 0.1234562}, {"0.5", 0.5}, {"0.50", 0.5}, {"1000000.25", 1000000.25}, {"1000000.26", 1000000.26}}

func VH_C09_FLOAT(n, B, form int) {
	keys := make([][]byte, n)
	vals := make([][]byte, n)
	pick := make([]int, n)
	for i := 0; i < n; i++ {
		keys[i] = []byte{byte('a' + i)}
		pick[i] = vChoose("p"+vItoa(i), len(vC09FloatPool))
		vals[i] = []byte(vC09FloatPool[pick[i]].text)
	}
	st := vNewStoreFrom(keys, vals)
	PlanBatchSize = B
	q := "select float(value) as f, count(1) where key >= '' group by f"
	if form == 1 {
		q = "select float(value) as f, count(1) where key >= '' group by f, key"
	}
	// reference: groups in order of first appearance
	var gv []float64
	var gc []int64
	for i := 0; i < n; i++ {
		x := vC09FloatPool[pick[i]].val
		found := false
		if form == 0 {
			for j := range gv {
				if gv[j] == x {
					gc[j]++
					found = true
					break
				}
			}
		}
		if !found {
			gv = append(gv, x)
			gc = append(gc, 1)
		}
	}
	for mode := 0; mode < 2; mode++ {
		p, err := NewOptimizer(q).BuildPlan(st.clone())
		vAssert(err == nil, "C09/FLOAT-statement-rejected")
		var r vRows
		if mode == 0 {
			r = vDrainNext(p, n+1)
		} else {
			r = vDrainBatch(p, n+1)
		}
		vAssert(r.err == nil, "C09/FLOAT-error")
		vAssert(len(r.rows) == len(gv), "C09/FLOAT-number-of-groups")
		for j, row := range r.rows {
			// the grouping column comes back as the float or as its decimal text
			f, ok := row[0].(float64)
			if !ok {
				if tb, isText := vColBytes(row[0]); isText {
					pf, err := strconv.ParseFloat(string(tb), 64)
					f, ok = pf, err == nil
				}
			}
			vAssert(ok && f == gv[j] && vIsInt64(row[1], gc[j]), "C09/FLOAT-group-differs-from-definition")
		}
	}
	vCover("grouped")
}
