//go:build verif || verifreplay

package kvql

// C19 — independent statements can run concurrently without races or interference.
// Reduced to a write-footprint statement decided by the engine: while a statement is parsed,
// planned, drained in both modes and its errors rendered, no kvql code writes an object
// reachable from a package-level variable (DESIGN.md §5 C19). Natively (replay) the same
// statement runs on 8 goroutines under the race detector and results are compared.

var vC19Extra = []string{
	"select key, upper(value) as u, strlen(u) as l where u != '' & key ~= '^.' order by l desc, key limit 0, 5",
	"select count(1), sum(int(value)), avg(int(value)), min(value), max(value), group_concat(key, ','), json_arrayagg(value) where key >= ''",
	"select substr(key, 0, 1) as p, count(1), quantile(int(value), 0.5) where key >= '' group by p",
	"select key, json(value)['x'], split(value, ',')[0], list(1, 2)[1], l2_distance(list(1, 2), list(3, 4)) where key >= ''",
	"select key where foo(key) = 'a'",
	"select key, where",
	"put (upper('a') + 'b', str(1 + 2))",
	"remove 'a' + 'b'",
	"delete where key between 'a' and 'b' limit 1",
	// statements that fail while being parsed, checked or planned: their errors are bound and rendered
	"select * where key ^= 'k' &", "select * where key in", "select key where !", "put ('k',", "select * where key = 'a' |",
	"select * where (key = 'a'", "select * where key between 'a'", "select upper(key", "remove", "select * where key in ('a',",
	"select * where key = 1", "select * where", "select key, value where key = 'a' order by", "select * where key = 'a' limit",
	"delete where", "select * where key = 'a' group by", "put", "select json(value)[ where key = 'a'",
}

func vC19Stmt(i int) string {
	if i < len(vC13Stmts) {
		return vC13Stmts[i]
	}
	i -= len(vC13Stmts)
	if i < len(vC03Stmts) {
		return vC03Stmts[i].q
	}
	i -= len(vC03Stmts)
	return vC19Extra[i]
}

func VN_C19(tier int) int { return len(vC13Stmts) + len(vC03Stmts) + len(vC19Extra) }

func VH_C19(si, n, B int) {
	q := vC19Stmt(si)
	var st *vStore
	if vContains(q, "json") || vContains(q, "~=") {
		// encoding/json and regexp run natively: concrete documents only
		st = vNewStoreFrom([][]byte{[]byte("a"), []byte("b")}, [][]byte{[]byte("{\"x\":[1,2],\"a\":\"x\"}"), []byte("a,1")})
	} else {
		st = vSymStore(n, 1, 1, 1, 2, "ab", "1,a")
	}
	PlanBatchSize = B
	if vIsReplay() {
		vAssert(vConcurrentRun(q, st, n), "C19/concurrent-result-differs-from-sequential")
		return
	}
	vRunToExhaustion(q, st, n+2)
	w := vSharedWrites()
	if len(w) > 0 {
		vLog(w[0])
	}
	vAssert(len(w) == 0, "C19/kvql-writes-state-reachable-from-package-level-variables")
	vCover("monitored")
}
