//go:build verif || verifreplay

package kvql

import (
	"bytes"
	"errors"
)

// C11 — DELETE removes exactly the pairs its WHERE (and LIMIT) selects, nothing else.

var vLimits = []string{"", " limit 1", " limit 1, 1", " limit 0, 2", " limit 2, 5"}

func vKeyIn(rows [][]Column, k []byte) bool {
	r := false
	for _, row := range rows {
		kb, _ := vColBytes(row[0])
		r = vOr(r, bytes.Equal(kb, k))
	}
	return r
}

func VH_C11(t, n, B, lim, lmax int) {
	h := &vHoles{lmin: 0, lmax: lmax}
	p := vTemplateC02(t, h)
	st := vStoreForPredicate(p, n, 0, 2, 1) // the empty key included
	for i := 0; i < n; i++ {
		vAssume(p.evaluable(st.keys[i], st.vals[i]))
	}
	PlanBatchSize = B
	cond := p.render() + vLimits[lim]
	// K: what the same predicate selects on the prior state (batch mode, the mode DELETE uses)
	ps, err := NewOptimizer("select * where " + cond).BuildPlan(st.clone())
	if err != nil {
		vCover("rejected")
		return
	}
	sel := vDrainBatch(ps, n+1)
	vAssert(sel.err == nil, "harness/C11-select-error")
	after := st.clone()
	pd, err := NewOptimizer("delete where " + cond).BuildPlan(after)
	vAssert(err == nil, "C11/delete-rejected-but-select-accepted")
	r := vDrainBatch(pd, 2)
	vAssert(r.err == nil, "C11/delete-error")
	ok := true
	for i := 0; i < n; i++ {
		inK := vKeyIn(sel.rows, st.keys[i])
		still := false
		for m := range after.keys {
			still = vOr(still, vAnd(bytes.Equal(after.keys[m], st.keys[i]), bytes.Equal(after.vals[m], st.vals[i])))
		}
		ok = vAnd(ok, still == vNot(inK))
	}
	vAssert(ok, "C11/store-is-prior-state-minus-selected-keys")
	// nothing new appears, nothing is written
	for m := range after.keys {
		old := false
		for i := 0; i < n; i++ {
			old = vOr(old, vAnd(bytes.Equal(after.keys[m], st.keys[i]), bytes.Equal(after.vals[m], st.vals[i])))
		}
		vAssert(old, "C11/pair-written-or-changed")
	}
	for _, c := range after.log {
		vAssert(c.Op != "Put" && c.Op != "BatchPut", "C11/delete-issues-a-write")
	}
	if _, isRemove := pd.(*RemovePlan); isRemove {
		vCover("direct-removal")
	} else {
		vCover("scan-and-delete")
	}
	if len(sel.rows) > 0 {
		vCover("something-deleted")
	}
}

func VN_C11(tier int) int {
	if tier == 0 {
		return vNumTemplatesC02(1)
	}
	return vNumTemplatesC02(2)
}

// ---------------------------------------------------------------- C13

// statements exercising every access path and plan node
var vC13Stmts = []string{
	"select * where key = 'a'",
	"select * where key in ('a', 'b')",
	"select * where key ^= 'a'",
	"select * where key >= 'a' & key <= 'b'",
	"select * where value = 'x'",
	"select key, value where key ^= 'a'",
	"select * where key >= 'a' limit 1, 1",
	"select key, value where key >= 'a' order by value desc",
	"select count(1), value where key >= 'a' group by value",
	"select count(1) where key >= 'a' limit 1",
	"put ('a', 'x')",
	"put ('a', 'x'), ('c', 'y')",
	"remove 'a'",
	"remove 'a', 'b'",
	"delete where key ^= 'a'",
	"delete where value = 'x' limit 1",
	"delete where key in ('a', 'b')",
	"delete where key = 'a' & value = 'x'",
	// residual filters: one Batch call reads several chunks, some rows accepted before the fault
	"select * where key >= 'a' & value = 'x'",
	"select * where key ^= 'a' & value = 'x'",
	"select * where key in ('a', 'b', 'ab', 'ba') & value = 'x'",
	"select key, upper(value) as u where u = 'X'",
	"delete where key >= 'a' & value = 'x'",
	"select count(1) where key >= 'a' & value = 'x'",
}

func VN_C13(tier int) int { return len(vC13Stmts) }

// VH_C13: a single storage fault at a solver-chosen position surfaces as that error and stops
// the statement; SELECT never mutates.
func VH_C13(si, n, B, mode int) {
	q := vC13Stmts[si]
	st := vSymStore(n, 1, 2, 1, 1, "ab", "xy")
	PlanBatchSize = B
	const F = 14
	st.faultAt = vNondetInt("fault", 0, F)
	isSelect := q[0] == 's'
	failedAt := -1
	check := func(err error, where string) bool {
		if st.fired && failedAt < 0 {
			failedAt = len(st.log) - 1
			vAssert(err != nil, "C13/storage-error-swallowed")
			vAssert(errors.Is(err, vInjected), "C13/storage-error-replaced")
			vCover("fault-surfaced")
			return true
		}
		return err != nil
	}
	plan, err := NewOptimizer(q).BuildPlan(st)
	stop := check(err, "BuildPlan")
	if !stop {
		vAssert(err == nil, "harness/C13-statement-rejected")
		ctx := NewExecuteCtx()
		for i := 0; i <= n+2 && !stop; i++ {
			if mode == 0 {
				cols, err := plan.Next(ctx)
				stop = check(err, "Next")
				if cols == nil && err == nil {
					break
				}
			} else {
				rows, err := plan.Batch(ctx)
				stop = check(err, "Batch")
				if len(rows) == 0 && err == nil {
					break
				}
				ctx.Clear()
			}
		}
	}
	if failedAt >= 0 {
		vAssert(len(st.log) == failedAt+1, "C13/storage-used-after-an-error")
	} else {
		vAssert(!st.fired, "C13/fault-fired-unnoticed")
		vAssert(len(st.log) <= F, "harness/C13-more-storage-operations-than-fault-positions")
		vCover("no-fault")
	}
	if isSelect {
		vAssert(st.mutations() == 0, "C13/select-mutates")
	}
}

// VH_C13_REJ: statements rejected at parse or plan time touch nothing that could change state.
var vC13Rejected = []string{
	"select * where key",
	"select * where key = 1",
	"delete where key + 1",
	"put ('a', value)",
	"put ('a')",
	"remove key",
	"delete where",
	"select key where key = 'a' group by key",
	"select * where key = 'a' limit",
	"delete where key = 'a' limit x",
	"put ('a', 'b') ('c', 'd')",
	"remove 'a' 'b'",
	"select count(1), key where key ^= 'a'",
}

func VN_C13_REJ(tier int) int { return len(vC13Rejected) }

func VH_C13_REJ(si, n int) {
	q := vC13Rejected[si]
	st := vSymStore(n, 1, 1, 1, 1, "ab", "xy")
	_, err := NewOptimizer(q).BuildPlan(st)
	vAssert(err != nil, "harness/C13-REJ-statement-accepted")
	vAssert(st.mutations() == 0, "C13/rejected-statement-mutates")
	vCover("rejected")
}
