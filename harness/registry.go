//go:build verif || verifreplay

package kvql

// vHarnesses maps harness names to entry points taking integer instance arguments
// (used by native replay; the engine calls the functions directly).
var vHarnesses = map[string]func(a []int){
	"VH_C16_A": func(a []int) { VH_C16_A(a[0], a[1]) },
	"VH_C02_L1": func(a []int) { VH_C02_L1(a[0], a[1], a[2]) },
	"VH_C02_L3": func(a []int) { VH_C02_L3(a[0], a[1], a[2], a[3]) },
	"VH_C18_L1": func(a []int) { VH_C18_L1(a[0], a[1]) },
	"VH_C18_L2": func(a []int) { VH_C18_L2(a[0], a[1], a[2], a[3]) },
	"VH_C01": func(a []int) { VH_C01(a[0], a[1], a[2], a[3], a[4]) },
	"VH_C02_INT": func(a []int) { VH_C02_INT(a[0], a[1], a[2], a[3]) },
	"VH_C08_L1": func(a []int) { VH_C08_L1(a[0], a[1], a[2], a[3], a[4]) },
	"VH_C08_L2": func(a []int) { VH_C08_L2(a[0], a[1], a[2], a[3]) },
	"VH_C08_DEL": func(a []int) { VH_C08_DEL(a[0], a[1]) },
	"VH_C11": func(a []int) { VH_C11(a[0], a[1], a[2], a[3], a[4]) },
	"VH_C13": func(a []int) { VH_C13(a[0], a[1], a[2], a[3]) },
	"VH_C13_REJ": func(a []int) { VH_C13_REJ(a[0], a[1]) },
	"VH_C12_PUT": func(a []int) { VH_C12_PUT(a[0], a[1], a[2], a[3], a[4]) },
	"VH_C12_REMOVE": func(a []int) { VH_C12_REMOVE(a[0], a[1], a[2]) },
	"VH_C12_SEQ": func(a []int) { VH_C12_SEQ(a[0]) },
	"VH_C17_L2": func(a []int) { VH_C17_L2(a[0], a[1], a[2], a[3]) },
	"VH_C17_L1": func(a []int) { VH_C17_L1(a[0], a[1], a[2]) },
	"VH_C04": func(a []int) { VH_C04(a[0]) },
	"VH_C07": func(a []int) { VH_C07(a[0], a[1], a[2]) },
	"VH_C07_L1": func(a []int) { VH_C07_L1(a[0], a[1]) },
	"VH_C09": func(a []int) { VH_C09(a[0], a[1], a[2]) },
	"VH_C09_MIX": func(a []int) { VH_C09_MIX(a[0], a[1], a[2]) },
	"VH_C05": func(a []int) { VH_C05(a[0], a[1], a[2], a[3]) },
	"VH_C03": func(a []int) { VH_C03(a[0], a[1], a[2]) },
	"VH_C10": func(a []int) { VH_C10(a[0], a[1], a[2], a[3]) },
	"VH_C10_WHERE": func(a []int) { VH_C10_WHERE(a[0], a[1], a[2]) },
	"VH_C15": func(a []int) { VH_C15(a[0], a[1], a[2]) },
	"VH_C14_OK": func(a []int) { VH_C14_OK(a[0], a[1], a[2], a[3]) },
	"VH_C14_FAULTY": func(a []int) { VH_C14_FAULTY(a[0], a[1]) },
	"VH_C06_RAW": func(a []int) { VH_C06_RAW(a[0], a[1]) },
	"VH_C06_TOK": func(a []int) { VH_C06_TOK(a[0], a[1]) },
	"VH_C06_STMT": func(a []int) { VH_C06_STMT(a[0], a[1]) },
	"VH_C06_FUNC": func(a []int) { VH_C06_FUNC(a[0], a[1], a[2]) },
	"VH_C19": func(a []int) { VH_C19(a[0], a[1], a[2]) },
	"VH_C02_L2": func(a []int) { VH_C02_L2(a[0], a[1], a[2], a[3], a[4]) },
}
