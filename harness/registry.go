//go:build verif || verifreplay

package kvql

// vHarnesses maps harness names to entry points taking integer instance arguments
// (used by native replay; the engine calls the functions directly).
var vHarnesses = map[string]func(a []int){
	"VH_C16_A": func(a []int) { VH_C16_A(a[0], a[1]) },
	"VH_C02_L1": func(a []int) { VH_C02_L1(a[0], a[1], a[2]) },
	"VH_C02_L2": func(a []int) { VH_C02_L2(a[0], a[1], a[2], a[3], a[4]) },
}
