//go:build verif || verifreplay

package kvql

import "bytes"

// C01 — SELECT returns exactly the pairs satisfying WHERE, once each, in key order.

// vSameSelection: rows (KEY, VALUE columns) are exactly the stored pairs i with sel[i], in
// ascending key order, each once, with the stored value. One Boolean term, no forks.
func vSameSelection(rows [][]Column, st *vStore, sel []bool) bool {
	ok := true
	cnt := 0
	rk := make([][]byte, len(rows))
	rv := make([][]byte, len(rows))
	for j, r := range rows {
		if len(r) != 2 {
			return false
		}
		var okk, okv bool
		rk[j], okk = vColBytes(r[0])
		rv[j], okv = vColBytes(r[1])
		if !okk || !okv {
			return false
		}
	}
	for i := range st.keys {
		cnt = cnt + vIteInt(sel[i], 1, 0)
		found := false
		for j := range rows {
			found = vOr(found, vAnd(bytes.Equal(rk[j], st.keys[i]), bytes.Equal(rv[j], st.vals[i])))
		}
		ok = vAnd(ok, found == sel[i])
	}
	ok = vAnd(ok, cnt == len(rows))
	for j := 0; j+1 < len(rows); j++ {
		ok = vAnd(ok, bytes.Compare(rk[j], rk[j+1]) < 0)
	}
	return ok
}

func vStoreForPredicate(p *vRef, n, kmin, kmax, vmax int) *vStore {
	valpha := ""
	vmin := 0
	if p.usesIntOf(rValue) {
		valpha = "0123456789"
		vmin = 1
	}
	if valpha == "" && p.usesCaseOf(rValue) {
		valpha = vASCII
	}
	kalpha := ""
	if p.usesIntOf(rKey) {
		kalpha = "0123456789"
	} else if p.usesCaseOf(rKey) {
		kalpha = vASCII
	}
	return vSymStore(n, kmin, kmax, vmin, vmax, kalpha, valpha)
}

func VH_C01(t, n, B, lmax, kmin int) {
	h := &vHoles{lmin: 0, lmax: lmax}
	vLazyFormat(true) // the text of a folded number (Explain only) is opaque
	if t >= 52 && t < 60 {
		h.digits = 1 // chains with several literals: one digit each
	}
	if t >= 52 && t < 56 {
		h.alpha = "ab"
	}
	p := vTemplateC01(t, h)
	var st *vStore
	if t >= 52 && t < 56 {
		// concatenation chains: the value must be able to hold key + two literals
		st = vSymStore(n, 1, 1, 0, 3, "ab", "ab")
	} else {
		st = vStoreForPredicate(p, n, kmin, 2, 2)
	}
	q := "select * where " + p.render()
	sel := make([]bool, n)
	for i := 0; i < n; i++ {
		vAssume(p.evaluable(st.keys[i], st.vals[i]))
		sel[i] = p.evalBool(st.keys[i], st.vals[i])
	}
	vKnownC01(p, st)
	PlanBatchSize = B
	s1 := st.clone()
	planN, err := NewOptimizer(q).BuildPlan(s1)
	if err != nil {
		vCover("rejected")
		return
	}
	rn := vDrainNext(planN, n+1)
	vAssert(rn.err == nil, "C01/row-mode-error-on-evaluable-predicate")
	vAssert(vSameSelection(rn.rows, st, sel), "C01/row-mode-rows-are-the-satisfying-pairs")
	s2 := st.clone()
	planB, err := NewOptimizer(q).BuildPlan(s2)
	vAssert(err == nil, "C01/second-build-rejected")
	rb := vDrainBatch(planB, n+1)
	vAssert(rb.err == nil, "C01/batch-mode-error-on-evaluable-predicate")
	vAssert(vSameSelection(rb.rows, st, sel), "C01/batch-mode-rows-are-the-satisfying-pairs")
	vAssert(s1.mutations() == 0 && s2.mutations() == 0, "C13/select-mutates")
	vCover("rows-compared")
	if len(rn.rows) > 0 {
		vCover("row-returned")
	}
	if len(rn.rows) < n {
		vCover("row-rejected")
	}
}

func vKnownC01(p *vRef, st *vStore) {
}

// VH_C02_INT — integration cross-check of C02: the optimised plan returns what the
// un-optimised filter accepts on a full scan (FilterExec.Filter of the plain parse over every pair).
func VH_C02_INT(t, n, B, lmax int) {
	h := &vHoles{lmin: 0, lmax: lmax}
	p := vTemplateC02(t, h)
	st := vStoreForPredicate(p, n, 0, 2, 1)
	q := "select * where " + p.render()
	_, fexec, err := BuildExecutor(q)
	if err != nil {
		vCover("rejected")
		return
	}
	sel := make([]bool, n)
	for i := 0; i < n; i++ {
		ok, err := fexec.Filter(NewKVP(st.keys[i], st.vals[i]), NewExecuteCtx())
		if err != nil { // not evaluable on this pair
			vCover("filter-error")
			return
		}
		sel[i] = ok
	}
	PlanBatchSize = B
	planN, err := NewOptimizer(q).BuildPlan(st.clone())
	vAssert(err == nil, "C02/INT-plan-rejected-but-parse-accepted")
	rn := vDrainNext(planN, n+1)
	vAssert(rn.err == nil, "C02/INT-row-mode-error")
	vAssert(vSameSelection(rn.rows, st, sel), "C02/INT-row-mode-equals-filtered-full-scan")
	planB, err := NewOptimizer(q).BuildPlan(st.clone())
	vAssert(err == nil, "C02/INT-second-build-rejected")
	rb := vDrainBatch(planB, n+1)
	if rb.err != nil {
		// the vector evaluator does not short-circuit: it may refuse an operand the row filter
		// never evaluates (an inverted BETWEEN behind a true disjunct). C03 leaves this direction
		// open (only a completed batch run obliges the row run); nothing to compare
		vCover("batch-evaluation-refused")
		return
	}
	vAssert(vSameSelection(rb.rows, st, sel), "C02/INT-batch-mode-equals-filtered-full-scan")
	vCover("rows-compared")
}

// key-constraining atoms (both literal sides) and two opaque ones
var vKeyAtoms = []int{0, 1, 2, 3, 4, 5, 6, 7, 8, 9, 10, 11, 12, 13, 28, 29, 30, 14, 46, 48}

func vNumTemplatesC02(depth int) int {
	n := len(vKeyAtoms)
	if depth <= 1 {
		return n
	}
	return n + 2*n*n
}

func vTemplateC02(t int, h *vHoles) *vRef {
	n := len(vKeyAtoms)
	if t < n {
		return vAtomC01(vKeyAtoms[t], h)
	}
	if t >= n+2*n*n {
		// Boolean constants mixed in (templates n+2n^2 .. n+2n^2+8n-1)
		t -= n + 2*n*n
		return vConstMix(t%vNumConstMix, vAtomC01(vKeyAtoms[t/vNumConstMix%n], h), vAtomC01(vKeyAtoms[(t/vNumConstMix+3)%n], h))
	}
	t -= n
	and := t%2 == 0
	t /= 2
	kw := "|"
	if and {
		kw = "&"
	}
	return vBin(and, kw, vAtomC01(vKeyAtoms[t/n%n], h), vAtomC01(vKeyAtoms[t%n], h))
}

// count functions for checks.json ("fn:" argument specs)
func VN_C01_D1(tier int) int { return vNumTemplatesC01D1() }
func VN_C01_D2(tier int) int { return vNumTemplatesC01D2() }
func VN_C02_INT_D1(tier int) int { return vNumTemplatesC02(1) }
func VN_C02_INT_D2(tier int) int { return vNumTemplatesC02(2) }
func VN_C02_INT_K(tier int) int  { return vNumConstMix * len(vKeyAtoms) }
