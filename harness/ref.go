//go:build verif || verifreplay

package kvql

import "bytes"

// Reference semantics (DESIGN.md §3.3): an independent evaluator over a small mirror AST,
// written from README.md / spec.md. It never calls kvql code. All operations are written
// fork-free (vAnd/vOr/vIte…) so that one evaluation yields one term.

const (
	rKey = iota
	rValue
	rText  // text literal hole
	rNum   // integer literal hole
	rCmp   // op in = != ^= > >= < <=   (text or number by operand kind)
	rAnd
	rOr
	rNot
	rIn      // args[0] in (args[1:]...)
	rBetween // args[0] between args[1] and args[2]
	rArith   // + - * /   on numbers
	rConcat  // text + text
	rFunc    // int upper lower strlen is_int str
	rTrue
	rFalse
	rAlias // args[0] = defining expression, op = alias name
)

const (
	kText = iota
	kInt
	kBool
)

type vRef struct {
	node   int
	op     string
	args   []*vRef
	text   []byte // rText
	num    int64  // rNum
	numTxt string // rNum rendering
	kw     string // spelling of and/or
}

func (r *vRef) kind() int {
	if r.node == rAlias {
		return r.args[0].kind()
	}
	switch r.node {
	case rKey, rValue, rText, rConcat:
		return kText
	case rNum, rArith:
		return kInt
	case rFunc:
		switch r.op {
		case "int", "strlen":
			return kInt
		case "is_int":
			return kBool
		}
		return kText
	}
	return kBool
}

// vRenderAliased: when set, alias nodes render as their name, otherwise as their definition
var vRenderAliased = false

func (r *vRef) render() string {
	switch r.node {
	case rAlias:
		if vRenderAliased {
			return r.op
		}
		return "(" + r.args[0].render() + ")"
	case rKey:
		return "key"
	case rValue:
		return "value"
	case rText:
		return "'" + string(r.text) + "'"
	case rNum:
		return r.numTxt
	case rCmp, rArith, rConcat:
		return r.args[0].render() + " " + r.op + " " + r.args[1].render()
	case rAnd, rOr:
		return "(" + r.args[0].render() + ") " + r.kw + " (" + r.args[1].render() + ")"
	case rNot:
		return "!(" + r.args[0].render() + ")"
	case rIn:
		s := r.args[0].render() + " in ("
		for i, a := range r.args[1:] {
			if i > 0 {
				s += ", "
			}
			s += a.render()
		}
		return s + ")"
	case rBetween:
		return r.args[0].render() + " between " + r.args[1].render() + " and " + r.args[2].render()
	case rFunc:
		t := r.op + "("
		if r.op == "join" {
			t += "',', "
		}
		for i, a := range r.args {
			if i > 0 {
				t += ", "
			}
			t += a.render()
		}
		return t + ")"
	case rTrue:
		return "true"
	case rFalse:
		return "false"
	}
	return "?"
}

// evaluable: the expression has a defined value on the pair (k, v)
func (r *vRef) evaluable(k, v []byte) bool {
	ok := true
	for _, a := range r.args {
		ok = vAnd(ok, a.evaluable(k, v))
	}
	switch r.node {
	case rArith:
		if r.op == "/" {
			ok = vAnd(ok, r.args[1].evalInt(k, v) != 0)
		}
	case rBetween:
		if r.args[0].kind() == kText {
			ok = vAnd(ok, bytes.Compare(r.args[1].evalText(k, v), r.args[2].evalText(k, v)) < 0)
		} else {
			ok = vAnd(ok, r.args[1].evalInt(k, v) < r.args[2].evalInt(k, v))
		}
	case rFunc:
		if r.op == "int" {
			ok = vAnd(ok, vIsDecimal(r.args[0].evalText(k, v)))
		}
	}
	return ok
}

// vIsDecimal: an optional sign followed by one or more decimal digits ("can be converted
// into integer" of the README, read as a plain decimal integer).
func vIsDecimal(b []byte) bool {
	if len(b) == 0 || len(b) > 9 {
		return false
	}
	sign := vOr(b[0] == '+', b[0] == '-')
	ok := vOr(vAnd(b[0] >= '0', b[0] <= '9'), vAnd(sign, len(b) > 1))
	for _, c := range b[1:] {
		ok = vAnd(ok, vAnd(c >= '0', c <= '9'))
	}
	return ok
}

// vDecimalValue: value of a text accepted by vIsDecimal (unspecified otherwise)
func vDecimalValue(b []byte) int64 {
	if len(b) == 0 {
		return 0
	}
	var n int64
	first := vIteInt(vAnd(b[0] >= '0', b[0] <= '9'), int(int64(b[0])-'0'), 0)
	n = int64(first)
	for _, c := range b[1:] {
		n = n*10 + (int64(c) - '0')
	}
	if b[0] == '-' { // forks only when the first byte can be a minus sign
		return -n
	}
	return n
}

func vUpper(b []byte) []byte {
	r := make([]byte, len(b))
	for i, c := range b {
		r[i] = vIteByte(vAnd(c >= 'a', c <= 'z'), c-32, c)
	}
	return r
}

func vLower(b []byte) []byte {
	r := make([]byte, len(b))
	for i, c := range b {
		r[i] = vIteByte(vAnd(c >= 'A', c <= 'Z'), c+32, c)
	}
	return r
}

func (r *vRef) evalText(k, v []byte) []byte {
	switch r.node {
	case rAlias:
		return r.args[0].evalText(k, v)
	case rKey:
		return k
	case rValue:
		return v
	case rText:
		return r.text
	case rConcat:
		a, b := r.args[0].evalText(k, v), r.args[1].evalText(k, v)
		out := make([]byte, 0, len(a)+len(b))
		out = append(out, a...)
		return append(out, b...)
	case rFunc:
		switch r.op {
		case "upper":
			return vUpper(r.args[0].evalText(k, v))
		case "lower":
			return vLower(r.args[0].evalText(k, v))
		case "join": // join(',', a, b)
			out := append([]byte(nil), r.args[0].evalText(k, v)...)
			out = append(out, ',')
			return append(out, r.args[1].evalText(k, v)...)
		}
	}
	vAssert(false, "harness/ref-evalText-on-non-text")
	return nil
}

func (r *vRef) evalInt(k, v []byte) int64 {
	switch r.node {
	case rAlias:
		return r.args[0].evalInt(k, v)
	case rNum:
		return r.num
	case rArith:
		a, b := r.args[0].evalInt(k, v), r.args[1].evalInt(k, v)
		switch r.op {
		case "+":
			return a + b
		case "-":
			return a - b
		case "*":
			return a * b
		case "/":
			return vSafeDiv(a, b)
		}
	case rFunc:
		switch r.op {
		case "int":
			return vDecimalValue(r.args[0].evalText(k, v))
		case "strlen":
			return int64(len(r.args[0].evalText(k, v)))
		}
	}
	vAssert(false, "harness/ref-evalInt-on-non-int")
	return 0
}

// vSafeDiv: truncating division; the divisor-zero case is excluded by evaluability, so any
// value may stand for it.
func vSafeDiv(a, b int64) int64 {
	if b == 0 { // forks; the zero side is never asserted on
		return 0
	}
	return a / b
}

func vCmpText(op string, a, b []byte) bool {
	switch op {
	case "=":
		return bytes.Equal(a, b)
	case "!=":
		return vNot(bytes.Equal(a, b))
	case "^=":
		return bytes.HasPrefix(a, b)
	}
	c := bytes.Compare(a, b)
	switch op {
	case ">":
		return c > 0
	case ">=":
		return c >= 0
	case "<":
		return c < 0
	case "<=":
		return c <= 0
	}
	vAssert(false, "harness/ref-unknown-text-op")
	return false
}

func vCmpInt(op string, a, b int64) bool {
	switch op {
	case "=":
		return a == b
	case "!=":
		return a != b
	case ">":
		return a > b
	case ">=":
		return a >= b
	case "<":
		return a < b
	case "<=":
		return a <= b
	}
	vAssert(false, "harness/ref-unknown-int-op")
	return false
}

func (r *vRef) evalBool(k, v []byte) bool {
	switch r.node {
	case rAlias:
		return r.args[0].evalBool(k, v)
	case rTrue:
		return true
	case rFalse:
		return false
	case rAnd:
		return vAnd(r.args[0].evalBool(k, v), r.args[1].evalBool(k, v))
	case rOr:
		return vOr(r.args[0].evalBool(k, v), r.args[1].evalBool(k, v))
	case rNot:
		return vNot(r.args[0].evalBool(k, v))
	case rCmp:
		switch r.args[0].kind() {
		case kText:
			return vCmpText(r.op, r.args[0].evalText(k, v), r.args[1].evalText(k, v))
		case kInt:
			return vCmpInt(r.op, r.args[0].evalInt(k, v), r.args[1].evalInt(k, v))
		default:
			a, b := r.args[0].evalBool(k, v), r.args[1].evalBool(k, v)
			if r.op == "=" {
				return a == b
			}
			return a != b
		}
	case rIn:
		res := false
		for _, a := range r.args[1:] {
			if r.args[0].kind() == kText {
				res = vOr(res, bytes.Equal(r.args[0].evalText(k, v), a.evalText(k, v)))
			} else {
				res = vOr(res, r.args[0].evalInt(k, v) == a.evalInt(k, v))
			}
		}
		return res
	case rBetween:
		if r.args[0].kind() == kText {
			x := r.args[0].evalText(k, v)
			return vAnd(bytes.Compare(r.args[1].evalText(k, v), x) <= 0, bytes.Compare(x, r.args[2].evalText(k, v)) <= 0)
		}
		x := r.args[0].evalInt(k, v)
		return vAnd(r.args[1].evalInt(k, v) <= x, x <= r.args[2].evalInt(k, v))
	case rFunc:
		if r.op == "is_int" {
			return vIsDecimal(r.args[0].evalText(k, v))
		}
	}
	vAssert(false, "harness/ref-evalBool-on-non-bool")
	return false
}

// usesInt reports whether the expression converts value/key text to a number (the store then
// holds decimal digits in that column).
func (r *vRef) usesIntOf(field int) bool {
	if r.node == rFunc && (r.op == "int") && r.args[0].node == field {
		return true
	}
	for _, a := range r.args {
		if a.usesIntOf(field) {
			return true
		}
	}
	return false
}

// usesCaseOf reports whether upper()/lower() is applied to the field (its bytes are then ASCII).
func (r *vRef) usesCaseOf(field int) bool {
	if r.node == rFunc && (r.op == "upper" || r.op == "lower") && r.args[0].mentions(field) {
		return true
	}
	for _, a := range r.args {
		if a.usesCaseOf(field) {
			return true
		}
	}
	return false
}

func (r *vRef) mentions(field int) bool {
	if r.node == field {
		return true
	}
	for _, a := range r.args {
		if a.mentions(field) {
			return true
		}
	}
	return false
}

var vASCII = func() string {
	b := make([]byte, 128)
	for i := range b {
		b[i] = byte(i)
	}
	return string(b)
}()

// ---------------------------------------------------------------- builders with holes

type vHoles struct {
	n      int
	lmin   int
	lmax   int
	digits int // maximal number of digits of integer holes (default 2)
	alpha  string
}

func (h *vHoles) text() *vRef {
	alpha := vLitAlpha
	if h.alpha != "" {
		alpha = h.alpha
	}
	b := vNondetBytes("L"+vItoa(h.n), h.lmin, h.lmax, alpha)
	h.n++
	return &vRef{node: rText, text: b}
}

// num: a 1..2 digit decimal literal with symbolic digits
func (h *vHoles) num() *vRef {
	nd := 2
	if h.digits > 0 {
		nd = h.digits
	}
	d := vNondetBytes("N"+vItoa(h.n), 1, nd, "0123456789")
	h.n++
	// no leading zeros are needed for value; the text is what the lexer sees
	return &vRef{node: rNum, num: vDecimalValue(d), numTxt: string(d)}
}

func vKeyRef() *vRef   { return &vRef{node: rKey} }
func vValueRef() *vRef { return &vRef{node: rValue} }
func vCmp(op string, a, b *vRef) *vRef {
	return &vRef{node: rCmp, op: op, args: []*vRef{a, b}}
}
func vFn(name string, a *vRef) *vRef { return &vRef{node: rFunc, op: name, args: []*vRef{a}} }
func vJoin(a, b *vRef) *vRef        { return &vRef{node: rFunc, op: "join", args: []*vRef{a, b}} }
func vAliasRef(name string, def *vRef) *vRef {
	return &vRef{node: rAlias, op: name, args: []*vRef{def}}
}
func vNumConst(n int64) *vRef { return &vRef{node: rNum, num: n, numTxt: vItoa(int(n))} }
func vIn(x *vRef, items ...*vRef) *vRef {
	return &vRef{node: rIn, args: append([]*vRef{x}, items...)}
}
func vBetween(x, lo, hi *vRef) *vRef { return &vRef{node: rBetween, args: []*vRef{x, lo, hi}} }
func vArith(op string, a, b *vRef) *vRef {
	return &vRef{node: rArith, op: op, args: []*vRef{a, b}}
}
func vConcat(a, b *vRef) *vRef { return &vRef{node: rConcat, op: "+", args: []*vRef{a, b}} }
func vNotRef(a *vRef) *vRef   { return &vRef{node: rNot, args: []*vRef{a}} }
func vBin(and bool, kw string, a, b *vRef) *vRef {
	n := rOr
	if and {
		n = rAnd
	}
	return &vRef{node: n, kw: kw, args: []*vRef{a, b}}
}

var vOps7 = []string{"=", "!=", "^=", ">", ">=", "<", "<="}
var vOps6 = []string{"=", "!=", ">", ">=", "<", "<="}

// vNumAtomsC01 atoms of the documented core language (regexp excluded)
const vNumAtomsC01 = 64

func vAtomC01(i int, h *vHoles) *vRef {
	switch {
	case i < 7:
		return vCmp(vOps7[i], vKeyRef(), h.text())
	case i < 14:
		return vCmp(vOps7[i-7], h.text(), vKeyRef())
	case i < 21:
		return vCmp(vOps7[i-14], vValueRef(), h.text())
	case i < 28:
		return vCmp(vOps7[i-21], h.text(), vValueRef())
	case i == 28:
		return vIn(vKeyRef(), h.text(), h.text())
	case i == 29:
		return vIn(vKeyRef(), h.text(), h.text(), h.text())
	case i == 30:
		return vBetween(vKeyRef(), h.text(), h.text())
	case i == 31:
		return vIn(vValueRef(), h.text(), h.text())
	case i == 32:
		return vBetween(vValueRef(), h.text(), h.text())
	case i < 39: // 33..38
		return vCmp(vOps6[i-33], vFn("int", vValueRef()), h.num())
	case i == 39:
		return vCmp("=", vArith("+", vFn("int", vValueRef()), h.num()), h.num())
	case i == 40:
		return vCmp(">", vArith("-", vFn("int", vValueRef()), h.num()), h.num())
	case i == 41:
		return vBetween(vFn("int", vValueRef()), h.num(), h.num())
	case i == 42:
		return vIn(vFn("int", vValueRef()), h.num(), h.num())
	case i == 43:
		return vCmp("=", vFn("strlen", vValueRef()), h.num())
	case i == 44:
		return vCmp("=", vFn("upper", vKeyRef()), h.text())
	case i == 45:
		return vCmp("^=", vFn("lower", vValueRef()), h.text())
	case i == 46:
		return vFn("is_int", vValueRef())
	case i == 47:
		return vCmp("=", vConcat(vValueRef(), h.text()), h.text())
	case i == 48:
		return vNotRef(vCmp("=", vKeyRef(), h.text()))
	case i == 49:
		return vNotRef(vCmp("^=", vValueRef(), h.text()))
	case i == 50:
		return vCmp("=", vKeyRef(), vValueRef())
	case i == 51:
		return vCmp("<", vArith("*", vFn("int", vValueRef()), &vRef{node: rNum, num: 3, numTxt: "3"}), h.num())
	case i == 52: // text concatenation chains with several literals (constant folding and re-association)
		return vCmp("=", vConcat(vConcat(vKeyRef(), h.text()), h.text()), vValueRef())
	case i == 53:
		return vCmp("=", vConcat(vConcat(h.text(), vKeyRef()), h.text()), vValueRef())
	case i == 54:
		return vCmp("=", vKeyRef(), vConcat(vConcat(h.text(), h.text()), h.text()))
	case i == 55:
		return vCmp("^=", vValueRef(), vConcat(vConcat(vKeyRef(), h.text()), h.text()))
	case i == 56: // integer chains with several literals
		return vCmp("=", vArith("+", vArith("+", vFn("int", vValueRef()), h.num()), h.num()), h.num())
	case i == 57:
		return vCmp(">", vArith("-", vArith("-", vFn("int", vValueRef()), h.num()), h.num()), vNumConst(0))
	case i == 58:
		return vCmp("=", vArith("+", vArith("+", h.num(), vFn("int", vValueRef())), h.num()), h.num())
	case i == 59:
		return vCmp("<", vArith("*", vArith("*", vFn("int", vValueRef()), vNumConst(2)), vNumConst(3)), h.num())
	case i == 60: // a literal on the left of a row-dependent operand (vector evaluation must not share the literal's buffer between rows)
		return vCmp("=", vConcat(h.text(), vValueRef()), vKeyRef())
	case i == 61:
		return vCmp("!=", vConcat(h.text(), vValueRef()), vKeyRef())
	case i == 62:
		return vCmp("^=", vValueRef(), vConcat(h.text(), vKeyRef()))
	case i == 63:
		return vCmp("<", vConcat(h.text(), vConcat(vValueRef(), h.text())), vKeyRef())
	}
	return &vRef{node: rTrue}
}

// the 14-atom core used for exhaustive depth-2 combinations
var vCoreAtoms = []int{0, 2, 3, 5, 7, 10, 12, 14, 18, 28, 30, 34, 44, 48}

// vTemplateC01 decodes a template index into a predicate:
//   [0, A)                 single atoms
//   [A, A + 2*14*14)       atomL (&||) atomR over the core (spelling alternates)
func vNumTemplatesC01D1() int { return vNumAtomsC01 + 2 }

func vTemplateC01(t int, h *vHoles) *vRef {
	if t < vNumAtomsC01 {
		return vAtomC01(t, h)
	}
	if t == vNumAtomsC01 {
		return &vRef{node: rTrue}
	}
	if t == vNumAtomsC01+1 {
		return &vRef{node: rFalse}
	}
	t -= vNumAtomsC01 + 2
	nc := len(vCoreAtoms)
	and := t%2 == 0
	t /= 2
	l, r := vCoreAtoms[t/nc%nc], vCoreAtoms[t%nc]
	kw := "|"
	if and {
		kw = "&"
	}
	if (l+r)%2 == 1 { // alternate the keyword spellings
		if and {
			kw = "and"
		} else {
			kw = "or"
		}
	}
	return vBin(and, kw, vAtomC01(l, h), vAtomC01(r, h))
}

func vNumTemplatesC01D2() int { return vNumAtomsC01 + 2 + 2*len(vCoreAtoms)*len(vCoreAtoms) }

// Boolean constants mixed into a predicate: neutral and absorbing operands at both nesting
// levels, which the expression optimizer removes before the access path is planned.
const vNumConstMix = 8

func vConstMix(shape int, a, a2 *vRef) *vRef {
	t, f := &vRef{node: rTrue}, &vRef{node: rFalse}
	switch shape {
	case 0:
		return vBin(true, "&", vBin(false, "|", a, f), t)
	case 1:
		return vBin(false, "|", vBin(true, "&", a, t), f)
	case 2:
		return vBin(true, "&", t, vBin(false, "|", f, a))
	case 3:
		return vBin(false, "|", f, vBin(true, "&", t, a))
	case 4:
		return vBin(false, "|", vBin(true, "&", a, t), vBin(true, "&", a2, t))
	case 5:
		return vBin(true, "&", vBin(false, "|", a, f), vBin(false, "|", a2, f))
	case 6:
		return vBin(true, "and", vBin(false, "or", a, f), t)
	}
	return vBin(false, "|", vBin(true, "&", f, a), vBin(true, "&", a2, t))
}
