//go:build verif || verifreplay

package kvql

// C06 — no query text and no data can crash the library.
// Every path that ends in a Go panic (raised in kvql or in a library function on arguments kvql
// passed), in unbounded recursion or in an exhausted execution budget is a violation; each is
// confirmed by native replay in an isolated process.

func vRunToExhaustion(q string, st *vStore, maxRows int) {
	for mode := 0; mode < 2; mode++ {
		plan, err := NewOptimizer(q).BuildPlan(st.clone())
		if err != nil {
			vRenderErr(q, err)
			vCover("build-error")
			return
		}
		var r vRows
		if mode == 0 {
			r = vDrainNext(plan, maxRows)
		} else {
			r = vDrainBatch(plan, maxRows)
		}
		if r.err != nil {
			vRenderErr(q, r.err)
			vCover("exec-error")
		} else {
			vCover("executed")
		}
		plan.Explain()
	}
}

func vSmallStore() *vStore {
	return vNewStoreFrom(
		[][]byte{[]byte("a"), []byte("b"), []byte("c")},
		[][]byte{[]byte("1"), []byte("{\"x\":[1,\"s\"],\"y\":2}"), []byte("\xff,z")})
}

// VH_C06_RAW(n, first): the query is n fully symbolic printable bytes (the first one from a
// class selected by `first` to split the work).
func VH_C06_RAW(n, first int) {
	vFreeParseFloat(true)
	var q string
	if first >= 0 {
		// split by the class of the first byte: statement keywords start with one of these letters
		heads := []string{"sS", "wW", "pP", "rR", "dD", " ", "'\"`", "(", "kKvV", "0123456789"}
		if first < len(heads) {
			q = string([]byte{vNondetByte("q0", heads[first])}) + vNondetString("q", n-1, n-1, vPrintable)
		} else {
			b := vNondetByte("q0", vPrintable)
			for _, h := range heads {
				for i := 0; i < len(h); i++ {
					vAssume(b != h[i])
				}
			}
			q = string([]byte{b}) + vNondetString("q", n-1, n-1, vPrintable)
		}
	} else {
		q = vNondetString("q", n, n, vPrintable)
	}
	vRunToExhaustion(q, vSmallStore(), 5)
}

// token alphabet for composed texts
var vC06Tokens = []string{
	"select", "where", "key", "value", "'a'", "(", ")", "upper", "count", "x", ",", "1", "1.5", "limit", "order", "by", "desc",
	"true", "as", "group", "[", "]", "put", "remove", "delete", ";", "=", "+", "&", "!", "in", "between", "and", "*", "/", "^=",
}

// VH_C06_TOK(k, head): texts of k tokens; the first token is a statement keyword chosen by head.
func VH_C06_TOK(k, head int) {
	heads := []string{"select", "where", "put", "remove", "delete", "select *", "select key,", "select count(1)"}
	q := heads[head]
	for i := 1; i < k; i++ {
		q += " " + vC06Tokens[vChoose("t"+vItoa(i), len(vC06Tokens))]
	}
	vRunToExhaustion(q, vSmallStore(), 5)
}

// crash-oriented statements over symbolic data
var vC06Stmts = []string{
	"select substr(key, A, B) where key >= ''",
	"select substr(value, 0 - A, B) where key >= ''",
	"select substr(key, A, 0 - B) where key >= ''",
	"select key where substr(value, A, B) = 'a'",
	"select key, json(value)['x'] as j where key >= '' order by j",
	"select key, json(value)['x'][A] where key >= ''",
	"select key, json(value)['x']['y']['z'] where key >= ''",
	"select key, split(value, ',')[A] where key >= ''",
	"select key, list(1, 2)[A] where key >= ''",
	"select key, upper(u) as u where key >= ''",
	"select key, u + 1 as u where u > 1",
	"select key, strlen(b) as a, strlen(a) as b where a > 0",
	"select key, int(value) as n where n / (n - A) > 1",
	"select key, int(value) / (int(value) - A) where key >= ''",
	"select * where key >= '' limit 0",
	"select * where key >= '' limit 99999999999999999999",
	"select * where key >= '' limit A, 0",
	"select * where key between 'b' and 'a'",
	"select * where int(value) between B and A",
	"select key, join(',') where key >= ''",
	"select key, join() where key >= ''",
	"select key, list() where key >= ''",
	"select key, l2_distance(list(1), json(value)) where key >= ''",
	"select key, cosine_distance(split(value, ','), list(1, 2)) where key >= ''",
	"select key, len(json(value)) where key >= ''",
	"select key, float(value) / 0 where key >= ''",
	"select key, int(value) / 0.0 where key >= ''",
	"select count(1), sum(value), avg(value), min(value), max(value) where key >= ''",
	"select count(1), avg(int(value)) where key = 'zzz'",
	"select key, value where value ~= '('",
	"select key where key in split(value, ',')",
	"select value, count(1) where key >= '' group by value order by value limit A, B",
	"delete where key >= '' limit A, B",
	"put (str(A / B), 'v')",
	"select key, int_list(value, 'x', 1.5)[A] where key >= ''",
	"select key, A / len(value), A / strlen(value), A / len(split(value, ',')) where key >= ''",
	"select key where 6 / len(value) > A | A / (len(value) - B) = 1",
	"select key, int(value) / len(json(value)['nope']), 1 / len('') where key >= ''",
	"select key, str(json(value)), int(json(value)), upper(json(value)['x']) where key >= ''",
	// signed literals wherever a number is read: indexes, positions, bounds
	"select key, split(value, ',')[-1] where key >= ''", "select key, list(1, 2)[-A] where key >= ''", "select key, json(value)['x'][-1] where key >= ''",
	"select key, substr(value, -A, -B) where key >= ''", "select key, substr(value, -1, A) where key >= ''", "select * where int(value) > -9223372036854775808",
	"select * where int(value) / -2 > -B", "select key, int_list(1, 2)[-0] where key >= ''", "select * where int(value) between -A and 9",
	"select * where key >= '' limit -1", "select key, float_list(-1.5, -A)[1] where key >= ''", "select key, -A - -1, -1.5 * -2, -0.5 + A where key >= ''",
	// aggregate parameters outside their domain
	"select quantile(strlen(value), 0 - 0.5) where key >= ''", "select quantile(strlen(value), A - B) where key >= ''",
	"select quantile(strlen(value), A) where key >= ''", "select quantile(strlen(value), 0.5 * A) where key >= ''",
	"select quantile(value, 1.0) where key >= ''", "select group_concat(key, A) where key >= ''",
	"select value, quantile(strlen(key), 0 - 1) where key >= '' group by value",
}

func VN_C06_STMTS(tier int) int { return len(vC06Stmts) }

func VH_C06_STMT(si, n int) {
	q := ""
	a := vNondetBytes("A", 1, 1, "0123459")
	b := vNondetBytes("B", 1, 1, "0123459")
	for i := 0; i < len(vC06Stmts[si]); i++ {
		c := vC06Stmts[si][i]
		switch c {
		case 'A':
			q += string(a)
		case 'B':
			q += string(b)
		default:
			q += string(c)
		}
	}
	var st *vStore
	if vContains(q, "json(") {
		st = vSmallStore()
	} else {
		st = vSymStore(n, 1, 1, 0, 2, "ab", "1,a")
	}
	PlanBatchSize = 1 + vChoose("B", 2)
	vRunToExhaustion(q, st, n+2)
}

// ---------------------------------------------------------------- function lemmas

// vStubExpr is an expression that evaluates to a given value of a given static type.
type vStubExpr struct {
	val any
	tp  Type
}

func (e *vStubExpr) Check(ctx *CheckCtx) error { return nil }
func (e *vStubExpr) String() string           { return "stub" }
func (e *vStubExpr) Execute(kv KVPair, ctx *ExecuteCtx) (any, error) {
	return e.val, nil
}
func (e *vStubExpr) ExecuteBatch(chunk []KVPair, ctx *ExecuteCtx) ([]any, error) {
	r := make([]any, len(chunk))
	for i := range r {
		r[i] = e.val
	}
	return r, nil
}
func (e *vStubExpr) ReturnType() Type     { return e.tp }
func (e *vStubExpr) GetPos() int          { return 0 }
func (e *vStubExpr) Walk(cb WalkCallback) { cb(e) }

const vNumArgKinds = 12

// vArgOfKind: a value of every dynamic type kvql can produce, with symbolic content
func vArgOfKind(kind int, tag string) Expression {
	switch kind {
	case 0:
		if vChoose(tag+"bin", 2) == 1 {
			return &vStubExpr{[]byte{0xff, 0x00}, TSTR} // not UTF-8
		}
		return &vStubExpr{vNondetBytes(tag, 0, 2, "a1,.-"), TSTR}
	case 1:
		return &vStubExpr{vNondetString(tag, 0, 2, "a1,."), TSTR}
	case 2: // extreme numbers
		return &vStubExpr{[]int64{0, -1, 9223372036854775807, -9223372036854775808}[vChoose(tag+"x", 4)], TNUMBER}
	case 3:
		return &vStubExpr{int64(vNondetInt(tag, -3, 3)), TNUMBER}
	case 4:
		return &vStubExpr{vNondetFloatPool(tag, vFloatPool), TNUMBER}
	case 5:
		return &vStubExpr{vNondetBool(tag), TBOOL}
	case 6:
		return &vStubExpr{nil, TSTR}
	case 7:
		return &vStubExpr{[]any{int64(1), "x", nil}, TLIST}
	case 8:
		return &vStubExpr{[]string{"a", vNondetString(tag, 0, 1, "1a")}, TLIST}
	case 9:
		return &vStubExpr{[]int64{1, vNondetInt64(tag)}, TLIST}
	case 10:
		return &vStubExpr{[]float64{0.5}, TLIST}
	}
	return &vStubExpr{JSON{"x": []any{1.0, "s"}, "y": map[string]any{"z": nil}}, TJSON}
}

var vC06Funcs = []string{"lower", "upper", "int", "float", "str", "is_int", "is_float", "substr", "json", "split", "list", "float_list",
	"int_list", "len", "join", "strlen", "cosine_distance", "l2_distance"}

func VN_C06_FUNCS(tier int) int { return len(vC06Funcs) }

// VH_C06_FUNC(fi, nargs, vec): call the body (or the vector body) of a scalar function with
// nargs arguments whose kinds are chosen by the engine and whose content is symbolic.
func VH_C06_FUNC(fi, nargs, vec int) {
	f, ok := GetScalarFunctionByName(vC06Funcs[fi])
	vAssert(ok, "harness/C06-function-missing")
	// the public entry points check the argument count before calling a body
	if (!f.VarArgs && nargs != f.NumArgs) || (f.VarArgs && nargs < f.NumArgs) {
		return
	}
	vLazyFormat(true)
	args := make([]Expression, nargs)
	for i := range args {
		if vC06Funcs[fi] == "json" {
			// encoding/json runs natively: concrete documents only
			docs := []string{"{\"a\":1}", "[1]", "x", "", "{\"a\":{\"b\":[1,null]}}"}
			args[i] = &vStubExpr{[]byte(docs[vChoose("doc", len(docs))]), TSTR}
			continue
		}
		args[i] = vArgOfKind(vChoose("kind"+vItoa(i), vNumArgKinds), "a"+vItoa(i))
	}
	kv := NewKVP([]byte("k"), []byte("v"))
	if vec == 0 {
		f.Body(kv, args, NewExecuteCtx())
	} else {
		f.BodyVec([]KVPair{kv, kv}, args, NewExecuteCtx())
	}
	vCover("called")
}

// vNumOfKind: a number of every Go dynamic kind the evaluators convert from, value from {0,1,-1,7}
// (symbolic choice for the kinds the engine models symbolically, concrete fork otherwise).
const vNumNumKinds = 14

func vNumOfKind(kind int, tag string) any {
	pick := vChoose(tag+"v", 4)
	v := []int64{0, 1, -1, 7}[pick]
	switch kind {
	case 0:
		return int(v)
	case 1:
		return int8(v)
	case 2:
		return int16(v)
	case 3:
		return int32(v)
	case 4:
		return v
	case 5:
		return uint(v & 0xff)
	case 6:
		return uint8(v & 0xff)
	case 7:
		return uint16(v & 0xff)
	case 8:
		return uint32(v & 0xff)
	case 9:
		return uint64(v & 0xff)
	case 10:
		return float32(v)
	case 11:
		return float64(v) / 2
	case 12:
		return []byte("x")
	}
	return nil
}

// VH_C06_MATH: arithmetic and comparison helpers on operands of every numeric dynamic kind
// (zero divisors included) return a value or an error, never panic.
func VH_C06_MATH(lk, rk int) {
	l := vNumOfKind(lk, "l")
	r := vNumOfKind(rk, "r")
	stub := &vStubExpr{r, TNUMBER}
	for _, op := range []byte{'+', '-', '*', '/'} {
		executeMathOp(l, r, op, stub)
	}
	for _, op := range []string{">", ">=", "<", "<=", "="} {
		execNumberCompare(l, r, op)
		execStringCompare(l, r, op)
	}
	kv := NewKVP([]byte("k"), []byte("v"))
	for _, o := range []Operator{Add, Sub, Mul, Div, Eq, NotEq, Gt, Lte, In, Between} {
		var right Expression = stub
		if o == In || o == Between {
			right = &ListExpr{List: []Expression{stub, stub}}
		}
		e := &BinaryOpExpr{Op: o, Left: &vStubExpr{l, TNUMBER}, Right: right}
		e.Execute(kv, NewExecuteCtx())
		e.ExecuteBatch([]KVPair{kv, kv}, NewExecuteCtx())
	}
	vCover("evaluated")
}

// Cyclic field definitions: a field name reachable from its own definition through every
// expression constructor must be refused (or evaluated), never recursed into without end.
var vC06CycleCtx = []string{
	"upper(@)", "@ + 'x'", "'x' + @", "!(@ = 'a')", "key in (upper(@))", "key in ('a', @)", "key in ('a', @ + 'x')",
	"key between upper(@) and 'z'", "key between 'a' and @ + 'z'", "key between @ and 'z'", "json(@)['x']", "split(@, ',')[0]",
	"strlen(lower(@))", "(@ = 'a') & key = 'b'", "join(',', key, @)", "substr(@, 0, 1)", "list(@, 'x')[0]", "upper(key) in (lower(upper(@)), 'k')",
	"(key = 'a' | !(key in (lower(@))))",
}

func VN_C06_CYCLE(tier int) int { return len(vC06CycleCtx) }

// VH_C06_CYCLE(ci, kind): kind 0 self reference, 1/2 two fields referring to each other, 3 self
// reference used in WHERE, 4 cycle of three, 5 self reference under ORDER BY, 6 under GROUP BY.
func VH_C06_CYCLE(ci, kind int) {
	c := vC06CycleCtx[ci]
	var q string
	switch kind {
	case 0:
		q = "select key, " + vFill(c, "f") + " as f where key >= ''"
	case 1:
		q = "select " + vFill(c, "b") + " as a, upper(a) as b where key >= ''"
	case 2:
		q = "select upper(b) as a, " + vFill(c, "a") + " as b where key >= ''"
	case 3:
		q = "select key, " + vFill(c, "f") + " as f where f != '' & key >= ''"
	case 4:
		q = "select " + vFill(c, "c") + " as a, lower(a) as b, b + 'x' as c where key >= ''"
	case 5:
		q = "select key, " + vFill(c, "f") + " as f where key >= '' order by f"
	default:
		q = "select " + vFill(c, "f") + " as f, count(1) where key >= '' group by f"
	}
	PlanBatchSize = 2
	vRunToExhaustion(q, vSmallStore(), 5)
}

// Calls whose arguments are all constants are evaluated once at plan time by the constant
// folder: every scalar function with literal arguments (symbolic digits A, B and a symbolic
// letter C), as a WHERE operand, as a select field and nested inside another call.
var vC06ConstCalls = []string{
	"upper('C')", "lower('CC')", "strlen('C')", "substr('abc', A, B)", "substr('C', 0, B)", "substr('', A, B)", "substr('abc', 0, 3)",
	"split('a,C', ',')", "split('C', '')", "join(',', 'a', 'C')", "join('', 'C')", "int('A')", "int('C')", "float('A.B')", "float('C')",
	"str(A)", "str('C')", "is_int('A')", "is_float('C')", "json('{\"C\":A}')", "json('C')", "list(A, B)", "list('C')", "int_list('A', B)",
	"float_list(A, 'B')", "len(list(A, B))", "len('C')", "len(split('C,C', ','))", "l2_distance(list(1, 2), list(A, B))",
	"cosine_distance(list(A, B), list(1, 2))", "l2_distance(list(A), list(1, 2))", "split('a,b', ',')[A]", "list(1, 2)[B]",
	"json('{\"x\":[1]}')['x'][A]", "json('{\"x\":1}')['C']",
}

func VN_C06_CONST(tier int) int { return len(vC06ConstCalls) }

// VH_C06_CONST(ci, pos): pos 0 WHERE operand, 1 select field, 2 nested in str(...) / strlen(...), 3 inside a concatenation.
func VH_C06_CONST(ci, pos int) {
	a := vNondetBytes("A", 1, 1, "0139")
	b := vNondetBytes("B", 1, 1, "0139")
	c := vNondetBytes("C", 1, 1, "aA1")
	call := ""
	for i := 0; i < len(vC06ConstCalls[ci]); i++ {
		switch ch := vC06ConstCalls[ci][i]; ch {
		case 'A':
			call += string(a)
		case 'B':
			call += string(b)
		case 'C':
			call += string(c)
		default:
			call += string(ch)
		}
	}
	var q string
	switch pos {
	case 0:
		q = "select key where value = " + call
	case 1:
		q = "select key, " + call + " as f where key >= ''"
	case 2:
		q = "select key, strlen(str(" + call + ")) where key >= ''"
	default:
		q = "select key where value + 'x' = " + call + " + 'x'"
	}
	PlanBatchSize = 2
	vRunToExhaustion(q, vSmallStore(), 5)
}
