//go:build verif || verifreplay

package kvql

import (
	"bytes"
	"math"
)

// C10 — scalar functions and list/JSON indexing compute their documented values.
// One case per function and argument shape; the argument is either row dependent (key/value)
// or a literal with symbolic content (then the call goes through constant folding).

const (
	c10Text = iota
	c10Int
	c10Float
	c10Bool
	c10Error // the call must be refused
)

type vC10Case struct {
	expr   string // K and V stand for the key and value arguments
	kind   int
	kalpha string
	valpha string
	vmin   int
	vmax   int
	ref    func(k, v []byte) any
}

func vCountByte(b []byte, c byte) int {
	n := 0
	for _, x := range b {
		n = n + vIteInt(x == c, 1, 0)
	}
	return n
}

// float syntax over the alphabet {digits, '.'}: at least one digit, at most one dot
func vIsSimpleFloat(b []byte) bool {
	dots, digits := 0, 0
	for _, c := range b {
		dots = dots + vIteInt(c == '.', 1, 0)
		digits = digits + vIteInt(vAnd(c >= '0', c <= '9'), 1, 0)
	}
	return vAnd(dots <= 1, vAnd(digits >= 1, dots+digits == len(b)))
}

func vC10Int(v []byte) int64 { return int64(vConcretize(int(vDecimalValue(v)))) }

var vC10Cases = []vC10Case{
	{"upper(V)", c10Text, "ab", vASCII, 0, 2, func(k, v []byte) any { return vUpper(v) }},
	{"lower(V)", c10Text, "ab", vASCII, 0, 2, func(k, v []byte) any { return vLower(v) }},
	{"strlen(V)", c10Int, "ab", "", 0, 3, func(k, v []byte) any { return int64(len(v)) }},
	{"strlen(K + V)", c10Int, "ab", "", 0, 2, func(k, v []byte) any { return int64(len(k) + len(v)) }},
	{"str(int(V))", c10Text, "ab", "019", 1, 2, func(k, v []byte) any { return vDecimal(int(vC10Int(v))) }},
	{"int(str(int(V)))", c10Int, "ab", "019", 1, 2, func(k, v []byte) any { return vDecimalValue(v) }},
	{"int(V)", c10Int, "ab", "0123456789", 1, 3, func(k, v []byte) any { return vDecimalValue(v) }},
	{"int(V)", c10Int, "ab", "0123456789", 16, 18, func(k, v []byte) any { return vDecimalValue(v) }}, // beyond 2^53
	{"int_list(int(V), 2)[0]", c10Int, "ab", "0123456789", 17, 18, func(k, v []byte) any { return vDecimalValue(v) }},
	{"float(V)", c10Float, "ab", "012", 1, 1, func(k, v []byte) any { return float64(vC10Int(v)) }},
	{"float(V + '.5')", c10Float, "ab", "012", 1, 1, func(k, v []byte) any { return float64(vC10Int(v)) + 0.5 }},
	{"is_int(V)", c10Bool, "ab", "1a+-", 0, 2, func(k, v []byte) any { return vIsDecimal(v) }},
	{"is_float(V)", c10Bool, "ab", "1.", 0, 3, func(k, v []byte) any { return vIsSimpleFloat(v) }},
	{"split(join(',', K, V), ',')[0]", c10Text, "ab", "xy", 0, 2, func(k, v []byte) any { return k }},
	{"split(join(',', K, V), ',')[1]", c10Text, "ab", "xy", 0, 2, func(k, v []byte) any { return v }},
	{"join('-', K, V, K)", c10Text, "ab", "xy", 0, 1, func(k, v []byte) any { return vCat(vCat(vCat(vCat(k, []byte("-")), v), []byte("-")), k) }},
	{"len(split(V, ','))", c10Int, "ab", "a,", 0, 3, func(k, v []byte) any { return int64(vConcretize(vCountByte(v, ',') + 1)) }},
	{"len(list(1, 2, 3))", c10Int, "ab", "x", 1, 1, func(k, v []byte) any { return int64(3) }},
	{"len(int_list(1, int(V)))", c10Int, "ab", "01", 1, 1, func(k, v []byte) any { return int64(2) }},
	{"len(float_list(1, 2))", c10Int, "ab", "x", 1, 1, func(k, v []byte) any { return int64(2) }},
	{"int_list(int(V), 2)[0]", c10Int, "ab", "019", 1, 2, func(k, v []byte) any { return vDecimalValue(v) }},
	{"list(int(V), 7)[1]", c10Int, "ab", "019", 1, 1, func(k, v []byte) any { return int64(7) }},
	{"list(5, 6, int(V))[2]", c10Int, "ab", "019", 1, 1, func(k, v []byte) any { return vDecimalValue(v) }},
	{"float_list(1, int(V))[1]", c10Float, "ab", "012", 1, 1, func(k, v []byte) any { return float64(vC10Int(v)) }},
	{"l2_distance(list(1, 2), list(int(V), 4))", c10Float, "ab", "0123", 1, 1, func(k, v []byte) any {
		x := float64(vC10Int(v))
		d0, d1 := math.Abs(1-x), math.Abs(2-4.0)
		return math.Sqrt(d0*d0 + d1*d1)
	}},
	{"cosine_distance(list(1, 2), list(3, int(V)))", c10Float, "ab", "123", 1, 1, func(k, v []byte) any {
		x := float64(vC10Int(v))
		t1 := 1*3.0 + 2*x
		t2 := 1*1.0 + 2*2.0
		t3 := 3*3.0 + x*x
		return 1 - t1/(math.Sqrt(t2)*math.Sqrt(t3))
	}},
	{"l2_distance(list(1, 2), list(1, 2, int(V)))", c10Error, "ab", "1", 1, 1, nil},
	{"cosine_distance(list(1), list(1, int(V)))", c10Error, "ab", "1", 1, 1, nil},
	{"split(V, ',')[0]", c10Text, "ab", "a,", 0, 2, func(k, v []byte) any {
		// text before the first comma
		n := len(v)
		for i := len(v) - 1; i >= 0; i-- {
			n = vIteInt(v[i] == ',', i, n)
		}
		return v[:vConcretize(n)]
	}},
	// every argument position depends on the row (keys differ from row to row)
	{"split(join(K, 'p', V), K)[1]", c10Text, ",;", "xy", 0, 2, func(k, v []byte) any { return v }},
	{"len(split(V, K))", c10Int, "a,", "a,", 0, 3, func(k, v []byte) any { return int64(vConcretize(vCountByte(v, k[0]) + 1)) }},
	{"join(K, V, 'x')", c10Text, "ab", "xy", 0, 2, func(k, v []byte) any { return vCat(vCat(v, k), []byte("x")) }},
	{"list(int(V), strlen(K))[1]", c10Int, "ab", "019", 1, 1, func(k, v []byte) any { return int64(len(k)) }},
	{"int_list(strlen(K), int(V))[0]", c10Int, "ab", "019", 1, 1, func(k, v []byte) any { return int64(len(k)) }},
	{"l2_distance(list(strlen(K), 2), list(int(V), 4))", c10Float, "ab", "0123", 1, 1, func(k, v []byte) any {
		x := float64(vC10Int(v))
		d0, d1 := math.Abs(float64(len(k))-x), math.Abs(2-4.0)
		return math.Sqrt(d0*d0 + d1*d1)
	}},
}

// cases whose key argument is a separator: never empty
var vC10KMin = map[string]int{"split(join(K, 'p', V), K)[1]": 1, "len(split(V, K))": 1}

func VN_C10(tier int) int { return len(vC10Cases) }

func vC10Matches(c vC10Case, got any, k, v []byte) bool {
	want := c.ref(k, v)
	switch c.kind {
	case c10Text:
		gb, ok := vColBytes(got)
		return ok && bytes.Equal(gb, want.([]byte))
	case c10Int:
		if xi, isInt := got.(int); isInt {
			return int64(xi) == want.(int64)
		}
		x, ok := got.(int64)
		return ok && x == want.(int64)
	case c10Float:
		x, ok := got.(float64)
		return ok && x == want.(float64)
	case c10Bool:
		x, ok := got.(bool)
		return ok && x == want.(bool)
	}
	return false
}

func vSubst(expr, k, v string) string {
	out := ""
	for i := 0; i < len(expr); i++ {
		switch expr[i] {
		case 'K':
			out += k
		case 'V':
			out += v
		default:
			out += string(expr[i])
		}
	}
	return out
}

// VH_C10(ci, variant, n, B): variant 0 row-dependent arguments, 1 literal arguments (constant folding).
func VH_C10(ci, variant, n, B int) {
	c := vC10Cases[ci]
	PlanBatchSize = B
	lazy := true // the text of a folded number (Explain only) is opaque ...
	for i := 0; i+3 < len(c.expr); i++ {
		if c.expr[i:i+4] == "str(" {
			lazy = false // ... unless the rendering is the function's value
		}
	}
	vLazyFormat(lazy)
	if variant == 0 {
		st := vSymStore(n, vC10KMin[c.expr], 1, c.vmin, c.vmax, c.kalpha, c.valpha)
		q := "select key, " + vSubst(c.expr, "key", "value") + " where key >= ''"
		for mode := 0; mode < 2; mode++ {
			p, err := NewOptimizer(q).BuildPlan(st.clone())
			if c.kind == c10Error && err != nil {
				vCover("refused")
				continue
			}
			vAssert(err == nil, "C10/statement-rejected")
			var r vRows
			if mode == 0 {
				r = vDrainNext(p, n+1)
			} else {
				r = vDrainBatch(p, n+1)
			}
			if c.kind == c10Error {
				vAssert(r.err != nil || n == 0, "C10/vectors-of-different-lengths-not-refused")
				vCover("refused")
				continue
			}
			vAssert(r.err == nil, "C10/evaluation-fails-on-documented-arguments")
			vAssert(len(r.rows) == n, "harness/C10-row-count")
			for i, row := range r.rows {
				vAssert(len(row) == 2 && vC10Matches(c, row[1], st.keys[i], st.vals[i]), "C10/function-value-differs-from-documentation")
			}
		}
		vCover("row-dependent")
		return
	}
	// literal arguments: alphabet restricted to bytes the lexer keeps inside quotes
	alpha := ""
	for i := 0; i < len(c.valpha); i++ {
		ch := c.valpha[i]
		if ch != '\'' && ch != '"' && ch != '`' && ch >= 0x20 && ch < 0x7f {
			alpha += string(ch)
		}
	}
	if c.valpha == "" {
		alpha = vLitAlpha
	}
	tk, k := vLit("K", vC10KMin[c.expr], 1, c.kalpha)
	tv, v := vLit("V", c.vmin, c.vmax, alpha)
	// n rows: with n > B the same constant call is evaluated for several chunks
	if n < 1 {
		n = 1
	}
	rk := make([][]byte, n)
	rv := make([][]byte, n)
	for i := 0; i < n; i++ {
		rk[i], rv[i] = []byte{byte('a' + i)}, []byte("x")
	}
	st := vNewStoreFrom(rk, rv)
	q := "select key, " + vSubst(c.expr, tk, tv) + " where key >= ''"
	for mode := 0; mode < 2; mode++ {
		p, err := NewOptimizer(q).BuildPlan(st.clone())
		if c.kind == c10Error && err != nil {
			vCover("refused")
			continue
		}
		vAssert(err == nil, "C10/statement-rejected")
		var r vRows
		if mode == 0 {
			r = vDrainNext(p, n+1)
		} else {
			r = vDrainBatch(p, n+1)
		}
		if c.kind == c10Error {
			vAssert(r.err != nil, "C10/vectors-of-different-lengths-not-refused")
			vCover("refused")
			continue
		}
		vAssert(r.err == nil, "C10/evaluation-fails-on-documented-arguments")
		vAssert(len(r.rows) == n, "harness/C10-row-count")
		for _, row := range r.rows {
			vAssert(len(row) == 2 && vC10Matches(c, row[1], k, v), "C10/function-value-differs-from-documentation")
		}
	}
	vCover("constant-arguments")
}

// VH_C10_WHERE: the function as a WHERE operand compared with a symbolic literal.
func VH_C10_WHERE(ci, n, B int) {
	c := vC10Cases[ci]
	if c.kind != c10Text && c.kind != c10Int && c.kind != c10Bool {
		return
	}
	PlanBatchSize = B
	st := vSymStore(n, 1, 1, c.vmin, c.vmax, c.kalpha, c.valpha)
	e := vSubst(c.expr, "key", "value")
	var q string
	var lit []byte
	var num int64
	switch c.kind {
	case c10Text:
		var t string
		t, lit = vLit("L", 0, 2, "abxyABXY019")
		q = "select * where " + e + " = " + t
	case c10Int:
		d := vNondetBytes("N", 1, 1, "0123456789")
		num = vDecimalValue(d)
		q = "select * where " + e + " = " + string(d)
	default:
		q = "select * where " + e
	}
	sel := make([]bool, n)
	for i := 0; i < n; i++ {
		want := c.ref(st.keys[i], st.vals[i])
		switch c.kind {
		case c10Text:
			sel[i] = bytes.Equal(want.([]byte), lit)
		case c10Int:
			sel[i] = want.(int64) == num
		default:
			sel[i] = want.(bool)
		}
	}
	for mode := 0; mode < 2; mode++ {
		p, err := NewOptimizer(q).BuildPlan(st.clone())
		if err != nil {
			vCover("rejected")
			return
		}
		var r vRows
		if mode == 0 {
			r = vDrainNext(p, n+1)
		} else {
			r = vDrainBatch(p, n+1)
		}
		vAssert(r.err == nil, "C10/evaluation-fails-on-documented-arguments")
		vAssert(vSameSelection(r.rows, st, sel), "C10/where-outcome-differs-from-documented-function-value")
	}
	vCover("where-operand")
}

// json(text)[name]... navigation. Documents are concrete (encoding/json runs natively on
// concrete text); which document a row holds, the member names and the list indexes are solver
// variables. A missing member or an index past the end yields '' (README), navigating into a
// non-empty text or a number is refused.
type vJ struct {
	kind byte // s text, n number, o object, a list
	s    string
	f    float64
	keys []string
	vals []*vJ
}

func vJS(s string) *vJ   { return &vJ{kind: 's', s: s} }
func vJN(f float64) *vJ  { return &vJ{kind: 'n', f: f} }
func vJA(v ...*vJ) *vJ   { return &vJ{kind: 'a', vals: v} }
func vJO(k []string, v ...*vJ) *vJ { return &vJ{kind: 'o', keys: k, vals: v} }

var vC10Docs = []struct {
	text string
	tree *vJ
}{
	{`{"a":"x","b":{"a":"y","c":[1,"s"]},"c":[10,"t",{"a":"z"}]}`,
		vJO([]string{"a", "b", "c"}, vJS("x"), vJO([]string{"a", "c"}, vJS("y"), vJA(vJN(1), vJS("s"))), vJA(vJN(10), vJS("t"), vJO([]string{"a"}, vJS("z"))))},
	{`{"a":"q","c":[7],"b":""}`, vJO([]string{"a", "c", "b"}, vJS("q"), vJA(vJN(7)), vJS(""))},
	{`{"c":[[5,6],{"a":{"a":"deep"}}],"a":{"c":[2.5]}}`,
		vJO([]string{"c", "a"}, vJA(vJA(vJN(5), vJN(6)), vJO([]string{"a"}, vJO([]string{"a"}, vJS("deep")))), vJO([]string{"c"}, vJA(vJN(2.5))))},
}

// one navigation step of the reference; ok=false: the library must refuse
func (j *vJ) member(name string) (*vJ, bool) {
	switch j.kind {
	case 'o':
		for i, k := range j.keys {
			if k == name {
				return j.vals[i], true
			}
		}
		return vJS(""), true
	case 's':
		if j.s == "" {
			return vJS(""), true
		}
	}
	return nil, false
}

func (j *vJ) index(i int) (*vJ, bool) {
	switch j.kind {
	case 'a':
		if i < len(j.vals) {
			return j.vals[i], true
		}
		return vJS(""), true
	case 's':
		if j.s == "" {
			return vJS(""), true
		}
	}
	return nil, false
}

func vJMatches(j *vJ, got any) bool {
	switch j.kind {
	case 's':
		b, ok := vColBytes(got)
		return ok && string(b) == j.s
	case 'n':
		f, ok := got.(float64)
		return ok && f == j.f
	case 'o':
		switch m := got.(type) {
		case map[string]any:
			return len(m) == len(j.keys)
		case JSON:
			return len(m) == len(j.keys)
		}
		return false
	}
	l, ok := got.([]any)
	return ok && len(l) == len(j.vals)
}

const vNumC10JSONShapes = 6

// VH_C10_JSON(shape, n, B): n rows, each holding one of the documents (solver's choice).
func VH_C10_JSON(shape, n, B int) {
	PlanBatchSize = B
	keys := make([][]byte, n)
	vals := make([][]byte, n)
	docs := make([]int, n)
	for i := 0; i < n; i++ {
		keys[i] = []byte{byte('a' + i)}
		docs[i] = vChoose("doc"+vItoa(i), len(vC10Docs))
		vals[i] = []byte(vC10Docs[docs[i]].text)
	}
	st := vNewStoreFrom(keys, vals)
	name := func(tag string) (string, string) {
		t, b := vLit(tag, 1, 1, "abcz")
		return t, string([]byte{byte(vConcretize(int(b[0])))})
	}
	num := func(tag string) (string, int) {
		d := vNondetBytes(tag, 1, 1, "0123")
		return string(d), vConcretize(int(d[0] - '0'))
	}
	var path string
	var steps []any // string = member, int = index
	switch shape {
	case 0:
		t, l := name("L")
		path, steps = "["+t+"]", []any{l}
	case 1:
		t, l := name("L")
		path, steps = "['b']["+t+"]", []any{"b", l}
	case 2:
		t, i := num("N")
		path, steps = "['c']["+t+"]", []any{"c", i}
	case 3:
		t, l := name("L")
		path, steps = "["+t+"]['a']", []any{l, "a"}
	case 4:
		t, i := num("N")
		path, steps = "['c']["+t+"]['a']", []any{"c", i, "a"}
	default:
		t, l := name("L")
		u, i := num("N")
		path, steps = "["+t+"]['c']["+u+"]", []any{l, "c", i}
	}
	q := "select key, json(value)" + path + " where key >= ''"
	// reference per row
	want := make([]*vJ, n)
	refused := false
	for i := 0; i < n; i++ {
		j, ok := vC10Docs[docs[i]].tree, true
		for _, s := range steps {
			switch s := s.(type) {
			case string:
				j, ok = j.member(s)
			case int:
				j, ok = j.index(s)
			}
			if !ok {
				break
			}
		}
		want[i] = j
		if !ok {
			refused = true
		}
	}
	for mode := 0; mode < 2; mode++ {
		p, err := NewOptimizer(q).BuildPlan(st.clone())
		vAssert(err == nil, "C10/statement-rejected")
		var r vRows
		if mode == 0 {
			r = vDrainNext(p, n+1)
		} else {
			r = vDrainBatch(p, n+1)
		}
		if refused {
			vAssert(r.err != nil, "C10/json-navigation-into-a-text-or-number-not-refused")
			continue
		}
		vAssert(r.err == nil, "C10/evaluation-fails-on-documented-arguments")
		vAssert(len(r.rows) == n, "harness/C10-row-count")
		for i, row := range r.rows {
			vAssert(len(row) == 2 && vJMatches(want[i], row[1]), "C10/json-navigation-returns-a-different-member")
		}
	}
	vCover("navigated")
}
