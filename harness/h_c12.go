//go:build verif || verifreplay

package kvql

import "bytes"

// C12 — PUT and REMOVE apply exactly the stated writes, once, all-or-nothing.

// expression shapes for keys and values; each returns the rendered text, the reference value
// given the pair's evaluated key, and whether evaluation fails.
type vPutExpr struct {
	text string
	eval func(key []byte) (val []byte, fails bool)
}

func vDecimal(n int) []byte {
	n = vConcretize(n)
	if n < 0 {
		return append([]byte{'-'}, vDecimal(-n)...)
	}
	if n < 10 {
		return []byte{byte('0' + n)}
	}
	return append(vDecimal(n/10), byte('0'+n%10))
}

func vCat(a, b []byte) []byte {
	out := make([]byte, 0, len(a)+len(b))
	out = append(out, a...)
	return append(out, b...)
}

const vNumPutKeyExprs = 7
const vNumPutValExprs = 11

func vPutKeyExpr(i int, tag string) vPutExpr {
	switch i {
	case 0:
		t, a := vLit(tag+"k", 0, 1, vLitAlpha)
		return vPutExpr{t, func(k []byte) ([]byte, bool) { return a, false }}
	case 1:
		// a number literal names the key by its value, however it is spelt (05, 00)
		d := vNondetBytes(tag+"n", 1, 2, "05")
		return vPutExpr{string(d), func(k []byte) ([]byte, bool) { return vDecimal(int(vDecimalValue(d))), false }}
	case 2:
		t0, a := vLit(tag+"k", 0, 1, vLitAlpha)
		t1, b := vLit(tag+"j", 0, 1, vLitAlpha)
		return vPutExpr{t0 + " + " + t1, func(k []byte) ([]byte, bool) { return vCat(a, b), false }}
	case 3:
		t, a := vLit(tag+"k", 1, 1, vLitAlpha)
		return vPutExpr{"upper(" + t + ")", func(k []byte) ([]byte, bool) { return vUpper(a), false }}
	}
	if i == 5 || i == 6 {
		// a failing operand at either side of a concatenation
		t, ev := vMaybeFailing(tag + "q")
		t0, a := vLit(tag+"k", 0, 1, vLitAlpha)
		if i == 5 {
			return vPutExpr{"str(" + t + ") + " + t0, func(k []byte) ([]byte, bool) {
				n, f := ev()
				if f {
					return nil, true
				}
				return vCat(vDecimal(n), a), false
			}}
		}
		return vPutExpr{t0 + " + str(" + t + ")", func(k []byte) ([]byte, bool) {
			n, f := ev()
			if f {
				return nil, true
			}
			return vCat(a, vDecimal(n)), false
		}}
	}
	d0 := vNondetBytes(tag+"n", 1, 1, "05")
	d1 := vNondetBytes(tag+"m", 1, 1, "07")
	return vPutExpr{"str(" + string(d0) + " + " + string(d1) + ")", func(k []byte) ([]byte, bool) {
		return vDecimal(int(vDecimalValue(d0) + vDecimalValue(d1))), false
	}}
}

// vMaybeFailing: N / (N - N), fails exactly when the two last literals coincide
func vMaybeFailing(tag string) (string, func() (int, bool)) {
	d0 := vNondetBytes(tag+"a", 1, 1, "09")
	d1 := vNondetBytes(tag+"b", 1, 1, "01")
	d2 := vNondetBytes(tag+"c", 1, 1, "01")
	return string(d0) + " / (" + string(d1) + " - " + string(d2) + ")", func() (int, bool) {
		den := int(vDecimalValue(d1) - vDecimalValue(d2))
		if den == 0 { // forks
			return 0, true
		}
		den = vConcretize(den)
		return int(vDecimalValue(d0)) / den, false
	}
}

func vPutValExpr(i int, tag string) vPutExpr {
	switch i {
	case 0, 1, 2, 3:
		return vPutKeyExpr(i, tag+"v")
	case 7, 8:
		return vPutKeyExpr(i-2, tag+"v")
	case 9:
		t, ev := vMaybeFailing(tag + "q")
		return vPutExpr{"upper(str(" + t + ") + key)", func(k []byte) ([]byte, bool) {
			n, f := ev()
			if f {
				return nil, true
			}
			return vUpper(vCat(vDecimal(n), k)), false
		}}
	case 10:
		t, ev := vMaybeFailing(tag + "q")
		return vPutExpr{"key + str(" + t + ") + 'z'", func(k []byte) ([]byte, bool) {
			n, f := ev()
			if f {
				return nil, true
			}
			return vCat(vCat(k, vDecimal(n)), []byte("z")), false
		}}
	case 4:
		return vPutExpr{"'v' + key", func(k []byte) ([]byte, bool) { return vCat([]byte("v"), k), false }}
	case 5:
		return vPutExpr{"upper('v' + key)", func(k []byte) ([]byte, bool) { return vUpper(vCat([]byte("v"), k)), false }}
	}
	d0 := vNondetBytes(tag+"a", 1, 1, "09")
	d1 := vNondetBytes(tag+"b", 1, 1, "01")
	d2 := vNondetBytes(tag+"c", 1, 1, "01")
	// N / (N - N): fails exactly when the two last literals coincide
	return vPutExpr{string(d0) + " / (" + string(d1) + " - " + string(d2) + ")", func(k []byte) ([]byte, bool) {
		den := int(vDecimalValue(d1) - vDecimalValue(d2))
		if den == 0 { // forks
			return nil, true
		}
		den = vConcretize(den)
		return vDecimal(int(vDecimalValue(d0)) / den), false
	}}
}

// vPoll polls a finished plan with a solver-chosen sequence of Next/Batch calls.
func vPoll(p FinalPlan, ctx *ExecuteCtx, times int) {
	for i := 0; i < times; i++ {
		if vNondetBool("poll" + vItoa(i)) {
			p.Next(ctx)
		} else {
			p.Batch(ctx)
		}
	}
}

// VH_C12_PUT(m, ke, ve, n): put of m pairs; expression shapes decoded from ke, ve (base-5/base-7 digits).
func VH_C12_PUT(m, ke, ve, n, firstMode int) {
	st := vSymStore(n, 1, 1, 1, 1, "", "xy")
	prior := st.clone()
	exprsK := make([]vPutExpr, m)
	exprsV := make([]vPutExpr, m)
	q := "put "
	for i := 0; i < m; i++ {
		exprsK[i] = vPutKeyExpr(ke%vNumPutKeyExprs, "p"+vItoa(i))
		exprsV[i] = vPutValExpr(ve%vNumPutValExprs, "p"+vItoa(i))
		ke /= vNumPutKeyExprs
		ve /= vNumPutValExprs
		if i > 0 {
			q += ", "
		}
		q += "(" + exprsK[i].text + ", " + exprsV[i].text + ")"
	}
	// reference: evaluate in order; any failure means no write at all
	wantK := make([][]byte, m)
	wantV := make([][]byte, m)
	fails := false
	for i := 0; i < m; i++ {
		k, f1 := exprsK[i].eval(nil)
		v, f2 := exprsV[i].eval(k)
		wantK[i], wantV[i] = k, v
		if f1 || f2 {
			fails = true
		}
	}
	plan, err := NewOptimizer(q).BuildPlan(st)
	vAssert(err == nil, "C12/put-rejected")
	ctx := NewExecuteCtx()
	if firstMode == 0 {
		_, err = plan.Next(ctx)
	} else {
		_, err = plan.Batch(ctx)
	}
	if fails {
		vAssert(err != nil, "C12/failing-expression-not-reported")
		vAssert(st.mutations() == 0, "C12/write-issued-although-an-expression-fails")
		vPoll(plan, ctx, 1)
		vAssert(st.mutations() == 0, "C12/write-issued-although-an-expression-fails")
		vCover("all-or-nothing")
		return
	}
	vAssert(err == nil, "C12/put-error")
	vPoll(plan, ctx, 1)
	vAssert(st.mutations() == 1, "C12/writes-not-issued-exactly-once")
	// final store = prior overwritten in order (a later duplicate key wins); fork-free:
	// sources in write order: prior pairs, then the put pairs
	srcK := append(append([][]byte(nil), prior.keys...), wantK...)
	srcV := append(append([][]byte(nil), prior.vals...), wantV...)
	ok := true
	for _, c := range srcK {
		for j := range srcK {
			isLast := bytes.Equal(srcK[j], c)
			for l := j + 1; l < len(srcK); l++ {
				isLast = vAnd(isLast, vNot(bytes.Equal(srcK[l], c)))
			}
			got := false
			for m := range st.keys {
				got = vOr(got, vAnd(bytes.Equal(st.keys[m], c), bytes.Equal(st.vals[m], srcV[j])))
			}
			ok = vAnd(ok, vImplies(isLast, got))
		}
	}
	for m := range st.keys {
		known := false
		for _, c := range srcK {
			known = vOr(known, bytes.Equal(st.keys[m], c))
		}
		ok = vAnd(ok, known)
	}
	vAssert(ok, "C12/put-final-store-differs-from-ordered-overwrite")
	vCover("put-applied")
}

// VH_C12_REMOVE(m, n)
func VH_C12_REMOVE(m, n, firstMode int) {
	st := vSymStore(n, 0, 2, 1, 1, "ab", "xy")
	prior := st.clone()
	q := "remove "
	keys := make([][]byte, m)
	for i := 0; i < m; i++ {
		t, a := vLit("r"+vItoa(i), 0, 2, "ab")
		keys[i] = a
		if i > 0 {
			q += ", "
		}
		q += t
	}
	plan, err := NewOptimizer(q).BuildPlan(st)
	vAssert(err == nil, "C12/remove-rejected")
	ctx := NewExecuteCtx()
	if firstMode == 0 {
		_, err = plan.Next(ctx)
	} else {
		_, err = plan.Batch(ctx)
	}
	vAssert(err == nil, "C12/remove-error")
	vPoll(plan, ctx, 2)
	vAssert(st.mutations() == 1, "C12/writes-not-issued-exactly-once")
	ok := true
	for i := range prior.keys {
		removed := false
		for _, k := range keys {
			removed = vOr(removed, bytes.Equal(k, prior.keys[i]))
		}
		still := false
		for j := range st.keys {
			still = vOr(still, vAnd(bytes.Equal(st.keys[j], prior.keys[i]), bytes.Equal(st.vals[j], prior.vals[i])))
		}
		ok = vAnd(ok, still == vNot(removed))
	}
	vAssert(ok, "C12/remove-final-store-is-not-prior-minus-keys")
	vAssert(len(st.keys) <= len(prior.keys), "C12/remove-adds-pairs")
	vCover("remove-applied")
}

// VH_C12_REMOVE_EXPR(m, ke, n, firstMode): remove with key expressions (shapes as for put keys), some failing.
func VH_C12_REMOVE_EXPR(m, ke, n, firstMode int) {
	st := vSymStore(n, 0, 2, 1, 1, "ab5", "xy")
	prior := st.clone()
	q := "remove "
	exprs := make([]vPutExpr, m)
	for i := 0; i < m; i++ {
		exprs[i] = vPutKeyExpr(ke%vNumPutKeyExprs, "r"+vItoa(i))
		ke /= vNumPutKeyExprs
		if i > 0 {
			q += ", "
		}
		q += exprs[i].text
	}
	keys := make([][]byte, m)
	fails := false
	for i := 0; i < m; i++ {
		k, f := exprs[i].eval(nil)
		keys[i] = k
		if f {
			fails = true
		}
	}
	plan, err := NewOptimizer(q).BuildPlan(st)
	vAssert(err == nil, "C12/remove-rejected")
	ctx := NewExecuteCtx()
	if firstMode == 0 {
		_, err = plan.Next(ctx)
	} else {
		_, err = plan.Batch(ctx)
	}
	if fails {
		vAssert(err != nil, "C12/failing-expression-not-reported")
		vAssert(st.mutations() == 0, "C12/write-issued-although-an-expression-fails")
		vPoll(plan, ctx, 1)
		vAssert(st.mutations() == 0, "C12/write-issued-although-an-expression-fails")
		vCover("all-or-nothing")
		return
	}
	vAssert(err == nil, "C12/remove-error")
	vPoll(plan, ctx, 1)
	vAssert(st.mutations() == 1, "C12/writes-not-issued-exactly-once")
	ok := true
	for i := range prior.keys {
		removed := false
		for _, k := range keys {
			removed = vOr(removed, bytes.Equal(k, prior.keys[i]))
		}
		still := false
		for j := range st.keys {
			still = vOr(still, vAnd(bytes.Equal(st.keys[j], prior.keys[i]), bytes.Equal(st.vals[j], prior.vals[i])))
		}
		ok = vAnd(ok, still == vNot(removed))
	}
	vAssert(ok, "C12/remove-final-store-is-not-prior-minus-keys")
	vAssert(len(st.keys) <= len(prior.keys), "C12/remove-adds-pairs")
	vCover("remove-applied")
}

// VH_C12_SEQ: a put followed by select * where key = k observes the write.
func VH_C12_SEQ(n int) {
	st := vSymStore(n, 1, 2, 1, 1, "ab", "xy")
	tk, k := vLit("k", 1, 2, "ab")
	tv, v := vLit("v", 0, 1, "xy")
	p, err := NewOptimizer("put (" + tk + ", " + tv + ")").BuildPlan(st)
	vAssert(err == nil, "C12/put-rejected")
	r := vDrainNext(p, 2)
	vAssert(r.err == nil, "C12/put-error")
	ps, err := NewOptimizer("select * where key = " + tk).BuildPlan(st)
	vAssert(err == nil, "C12/select-rejected")
	rs := vDrainNext(ps, 2)
	vAssert(rs.err == nil && len(rs.rows) == 1, "C12/following-select-does-not-observe-the-put")
	kb, _ := vColBytes(rs.rows[0][0])
	vb, _ := vColBytes(rs.rows[0][1])
	vAssert(vAnd(bytes.Equal(kb, k), bytes.Equal(vb, v)), "C12/following-select-does-not-observe-the-put")
	vCover("observed")
}
