//go:build verif || verifreplay

package kvql

// C05 — aliases are pure abbreviations and the field cache is invisible.

type vC05Tmpl struct {
	fields []*vRef  // defining expressions of the aliased fields
	names  []string // their aliases
	where  *vRef    // predicate, with rAlias nodes where the alias is used
	valpha string
	kalpha string
}

func vC05Template(t int, h *vHoles) vC05Tmpl {
	n := vFn("int", vValueRef())
	u := vFn("upper", vKeyRef())
	w := vConcat(vValueRef(), &vRef{node: rText, text: []byte("x")})
	l := vFn("strlen", vValueRef())
	an := func() *vRef { return vAliasRef("n", n) }
	au := func() *vRef { return vAliasRef("u", u) }
	aw := func() *vRef { return vAliasRef("w", w) }
	al := func() *vRef { return vAliasRef("l", l) }
	dig, let := "0123456789", "ab"
	switch t {
	case 0:
		return vC05Tmpl{[]*vRef{n}, []string{"n"}, vCmp(">", an(), h.num()), dig, let}
	case 1:
		return vC05Tmpl{[]*vRef{n}, []string{"n"}, vBin(true, "&", vCmp(">", an(), h.num()), vCmp("<", an(), h.num())), dig, let}
	case 2:
		return vC05Tmpl{[]*vRef{n}, []string{"n"}, vNotRef(vCmp("=", an(), h.num())), dig, let}
	case 3:
		return vC05Tmpl{[]*vRef{u}, []string{"u"}, vBin(true, "&", vCmp("^=", vKeyRef(), &vRef{node: rText, text: []byte("a")}), vCmp("=", au(), &vRef{node: rText, text: []byte("AB")})), "01", let}
	case 4:
		return vC05Tmpl{[]*vRef{w}, []string{"w"}, vCmp("^=", aw(), &vRef{node: rText, text: []byte("ax")}), let, let}
	case 5:
		return vC05Tmpl{[]*vRef{l}, []string{"l"}, vBin(false, "|", vCmp("=", al(), vNumConst(1)), vCmp("=", vKeyRef(), &vRef{node: rText, text: []byte("b")})), let, let}
	case 6:
		return vC05Tmpl{[]*vRef{n, u}, []string{"n", "u"}, vBin(true, "&", vCmp(">=", an(), h.num()), vCmp("!=", au(), &vRef{node: rText, text: []byte("A")})), dig, let}
	case 7:
		return vC05Tmpl{[]*vRef{u}, []string{"u"}, vCmp("=", vFn("strlen", au()), vNumConst(1)), "01", let}
	case 8:
		return vC05Tmpl{[]*vRef{n}, []string{"n"}, vBin(true, "&", vIn(vKeyRef(), &vRef{node: rText, text: []byte("a")}, &vRef{node: rText, text: []byte("b")}), vCmp(">", an(), h.num())), dig, let}
	case 9:
		return vC05Tmpl{[]*vRef{n}, []string{"n"}, vCmp("<", h.num(), an()), dig, let}
	case 10:
		return vC05Tmpl{[]*vRef{u, vJoin(au(), vKeyRef())}, []string{"u", "j"}, vCmp("!=", au(), &vRef{node: rText, text: []byte("A")}), "01", let}
	case 11:
		return vC05Tmpl{[]*vRef{w}, []string{"w"}, vCmp("=", vFn("upper", aw()), &vRef{node: rText, text: []byte("AX")}), let, let}
	case 12:
		return vC05Tmpl{[]*vRef{n}, []string{"n"}, vBin(true, "&", vCmp(">=", vKeyRef(), &vRef{node: rText, text: []byte("a")}), vCmp("=", vArith("+", an(), an()), h.num())), dig, let}
	case 13:
		return vC05Tmpl{[]*vRef{n, l}, []string{"n", "l"}, vBin(false, "|", vCmp(">", an(), h.num()), vCmp(">", al(), vNumConst(1))), dig, let}
	case 16, 17, 18, 19, 20, 21, 22: // alias of the bare key: every comparison, literal on the left
		op := vOps7[t-16]
		k := vKeyRef()
		return vC05Tmpl{[]*vRef{k}, []string{"k"}, vCmp(op, h.text(), vAliasRef("k", k)), let, let}
	case 23, 24, 25, 26, 27, 28, 29: // ... literal on the right
		op := vOps7[t-23]
		k := vKeyRef()
		return vC05Tmpl{[]*vRef{k}, []string{"k"}, vCmp(op, vAliasRef("k", k), h.text()), let, let}
	case 30:
		k := vKeyRef()
		return vC05Tmpl{[]*vRef{k}, []string{"k"}, vIn(vAliasRef("k", k), h.text(), h.text()), let, let}
	case 31:
		v := vValueRef()
		return vC05Tmpl{[]*vRef{v}, []string{"v"}, vBin(true, "&", vCmp(">=", h.text(), vAliasRef("v", v)), vCmp("!=", vAliasRef("v", v), h.text())), let, let}
	case 32:
		k := vKeyRef()
		return vC05Tmpl{[]*vRef{k, vFn("upper", vAliasRef("k", k))}, []string{"k", "u"}, vCmp("^=", vAliasRef("k", k), h.text()), let, let}
	case 14: // three references; the second one feeds an operator that writes its result in place
		return vC05Tmpl{[]*vRef{n}, []string{"n"}, vBin(true, "&", vBin(true, "&", vCmp(">", an(), vNumConst(0)), vCmp(">", vNumConst(6), vArith("*", an(), vNumConst(2)))), vCmp("<", an(), h.num())), "0123", let}
	case 15:
		return vC05Tmpl{[]*vRef{w}, []string{"w"}, vBin(true, "&", vBin(true, "&", vCmp("!=", aw(), &vRef{node: rText, text: []byte("q")}), vCmp("=", vConcat(aw(), &vRef{node: rText, text: []byte("y")}), &vRef{node: rText, text: []byte("axy")})), vCmp("^=", aw(), &vRef{node: rText, text: []byte("a")})), let, let}
	}
	return vC05Tmpl{[]*vRef{n}, []string{"n"}, vCmp(">", an(), h.num()), dig, let}
}

const vNumC05 = 33

func VN_C05(tier int) int { return vNumC05 }

func (tm vC05Tmpl) query(aliased bool) string {
	vRenderAliased = aliased
	q := "select key"
	for i, f := range tm.fields {
		q += ", " + f.render() + " as " + tm.names[i]
	}
	q += " where " + tm.where.render()
	vRenderAliased = false
	return q
}

// vRowsMatchRef: every row has one column per announced field and column i is the value of
// field i's expression on that row's pair; the rows are the pairs selected by the reference.
func vRowsMatchRef(rows [][]Column, names []string, tm vC05Tmpl, st *vStore) bool {
	ok := true
	cnt := 0
	for i := range st.keys {
		k, v := st.keys[i], st.vals[i]
		sel := tm.where.evalBool(k, v)
		cnt = cnt + vIteInt(sel, 1, 0)
		found := false
		for _, row := range rows {
			if len(row) != len(names) || len(row) != 1+len(tm.fields) {
				return false
			}
			same := vColEq(row[0], k)
			for j, f := range tm.fields {
				switch f.kind() {
				case kInt:
					x, isInt := row[1+j].(int64)
					same = vAnd(same, isInt && x == f.evalInt(k, v))
				default:
					same = vAnd(same, vColEq(row[1+j], f.evalText(k, v)))
				}
			}
			found = vOr(found, same)
		}
		ok = vAnd(ok, found == sel)
	}
	ok = vAnd(ok, cnt == len(rows))
	return ok
}

func vRun(q string, st *vStore, batch bool, n int) (vRows, []string, error) {
	p, err := NewOptimizer(q).BuildPlan(st.clone())
	if err != nil {
		return vRows{}, nil, err
	}
	if batch {
		return vDrainBatch(p, n+1), p.FieldNameList(), nil
	}
	return vDrainNext(p, n+1), p.FieldNameList(), nil
}

func vSameRows(a, b [][]Column) bool {
	if len(a) != len(b) {
		return false
	}
	ok := true
	for i := range a {
		ok = vAnd(ok, vRowEq(a[i], b[i]))
	}
	return ok
}

func VH_C05(t, n, B, mode int) {
	h := &vHoles{lmin: 1, lmax: 1}
	tm := vC05Template(t, h)
	st := vSymStore(n, 1, 2, 1, 2, tm.kalpha, tm.valpha)
	PlanBatchSize = B
	batch := mode == 1
	qa, qe := tm.query(true), tm.query(false)
	vKnownC05(t, tm, st, batch)
	EnableFieldCache = true
	ra, names, err := vRun(qa, st, batch, n)
	if err != nil {
		vCover("rejected")
		EnableFieldCache = true
		return
	}
	vAssert(ra.err == nil, "C05/aliased-query-fails")
	re, _, err := vRun(qe, st, batch, n)
	vAssert(err == nil && re.err == nil, "harness/C05-expanded-query-fails")
	vAssert(vSameRows(ra.rows, re.rows), "C05/aliased-rows-differ-from-alias-expanded-rows")
	EnableFieldCache = false
	rc, _, err := vRun(qa, st, batch, n)
	EnableFieldCache = true
	vAssert(err == nil && rc.err == nil, "C05/aliased-query-fails-with-cache-off")
	vAssert(vSameRows(ra.rows, rc.rows), "C05/cache-switch-changes-the-result")
	vAssert(vRowsMatchRef(ra.rows, names, tm, st), "C05/columns-are-not-the-field-values-of-the-row")
	vCover("compared")
	if len(ra.rows) > 0 && len(ra.rows) < n {
		vCover("some-rows-rejected")
	}
}

func vKnownC05(t int, tm vC05Tmpl, st *vStore, batch bool) {
}

// aliases inside aggregate arguments, GROUP BY and ORDER BY: aliased text vs expanded text
var vC05AggPairs = [][2]string{
	{"select int(value) as v, sum(v) as s where v > 0 group by v", "select int(value) as v, sum(int(value)) as s where int(value) > 0 group by v"},
	{"select upper(key) as u, count(1), group_concat(u, ',') where u != '' group by u", "select upper(key) as u, count(1), group_concat(upper(key), ',') where upper(key) != '' group by u"},
	{"select strlen(key) as l, int(value) as v, max(v), min(v + 1) where key >= '' group by l, v", "select strlen(key) as l, int(value) as v, max(int(value)), min(int(value) + 1) where key >= '' group by l, v"},
	{"select strlen(value) as l, sum(int(value)) as s where l > 0 group by l order by s desc", "select strlen(value) as l, sum(int(value)) as s where strlen(value) > 0 group by l order by s desc"},
	{"select key, int(value) as v where v >= 0 order by v desc, key", "select key, int(value) as v where int(value) >= 0 order by v desc, key"},
	{"select int(value) as v, avg(v * 2) where v != 1 group by v", "select int(value) as v, avg(int(value) * 2) where int(value) != 1 group by v"},
	// the bare name next to an aggregate is evaluated when the group is completed
	{"select int(value) as n, sum(n) + n as t where n > 0 group by n", "select int(value) as n, sum(int(value)) + int(value) as t where int(value) > 0 group by n"},
	{"select strlen(value) as l, count(1) * l, max(l) - l where l > 0 group by l", "select strlen(value) as l, count(1) * strlen(value), max(strlen(value)) - strlen(value) where strlen(value) > 0 group by l"},
}

// statements that give one name to two different fields: refused, or the cache switch is invisible
var vC05DupStmts = []string{
	"select int(value) as n, key as n where n > 0",
	"select key as f, value as f where f != ''",
	"select upper(value) as u, lower(value) as u, u + 'x' where u != 'zz'",
	"select key, value as KEY where key >= ''",
}

func VN_C05_DUP(tier int) int { return len(vC05DupStmts) }

func VH_C05_DUP(si, n, B, mode int) {
	ks := make([][]byte, n)
	vs := make([][]byte, n)
	for i := 0; i < n; i++ {
		ks[i] = []byte{byte('a' + i)}
		vs[i] = vNondetBytes("v"+vItoa(i), 1, 1, "012a")
	}
	st := vNewStoreFrom(ks, vs)
	PlanBatchSize = B
	q := vC05DupStmts[si]
	EnableFieldCache = true
	ra, _, err := vRun(q, st, mode == 1, n)
	if err != nil {
		vCover("refused")
		return
	}
	EnableFieldCache = false
	rc, _, err2 := vRun(q, st, mode == 1, n)
	EnableFieldCache = true
	vAssert(err2 == nil, "C05/cache-switch-changes-acceptance")
	vAssert((ra.err == nil) == (rc.err == nil), "C05/cache-switch-changes-the-result")
	if ra.err == nil {
		vAssert(vSameRows(ra.rows, rc.rows), "C05/cache-switch-changes-the-result")
	}
	vCover("compared")
}

func VN_C05_AGG(tier int) int { return len(vC05AggPairs) }

func VH_C05_AGG(pi, n, B, mode int) {
	// concrete keys (any number of pairs), symbolic values
	ks := make([][]byte, n)
	vs := make([][]byte, n)
	for i := 0; i < n; i++ {
		ks[i] = []byte{byte('a' + i)}
		vs[i] = vNondetBytes("v"+vItoa(i), 1, 1, "0123")
	}
	st := vNewStoreFrom(ks, vs)
	PlanBatchSize = B
	batch := mode == 1
	qa, qe := vC05AggPairs[pi][0], vC05AggPairs[pi][1]
	EnableFieldCache = true
	ra, _, err := vRun(qa, st, batch, n)
	vAssert(err == nil && ra.err == nil, "C05/aliased-query-fails")
	re, _, err := vRun(qe, st, batch, n)
	vAssert(err == nil && re.err == nil, "harness/C05-expanded-query-fails")
	vAssert(vSameRows(ra.rows, re.rows), "C05/aliased-rows-differ-from-alias-expanded-rows")
	EnableFieldCache = false
	rc, _, err := vRun(qa, st, batch, n)
	EnableFieldCache = true
	vAssert(err == nil && rc.err == nil, "C05/aliased-query-fails-with-cache-off")
	vAssert(vSameRows(ra.rows, rc.rows), "C05/cache-switch-changes-the-result")
	vCover("compared")
}
