//go:build verif || verifreplay

package kvql

import "bytes"

// C07 — ORDER BY returns a sorted permutation of the unordered result.

// reference comparator on column values: text byte-wise, numbers numerically, false before true.
// Returns (less, equal) as Boolean terms.
func vColCmp(a, b Column) (bool, bool) {
	if ab, ok := vColBytes(a); ok {
		bb, ok2 := vColBytes(b)
		vAssert(ok2, "harness/C07-column-kinds-differ")
		c := bytes.Compare(ab, bb)
		return c < 0, c == 0
	}
	switch x := a.(type) {
	case int64:
		switch y := b.(type) {
		case int64:
			return x < y, x == y
		case float64:
			return float64(x) < y, float64(x) == y
		}
	case float64:
		switch y := b.(type) {
		case int64:
			return x < float64(y), x == float64(y)
		case float64:
			return x < y, x == y
		}
	case bool:
		y, ok := b.(bool)
		vAssert(ok, "harness/C07-column-kinds-differ")
		return vAnd(vNot(x), y), x == y
	}
	vAssert(false, "harness/C07-unsupported-column-kind")
	return false, false
}

type vOrderKey struct {
	col  int
	desc bool
}

// vRowLeq: a sorts before or ties with b under the listed keys (lexicographic).
func vRowLeq(a, b []Column, keys []vOrderKey) bool {
	le := true
	for i := len(keys) - 1; i >= 0; i-- {
		lt, eq := vColCmp(a[keys[i].col], b[keys[i].col])
		if keys[i].desc {
			gt := vAnd(vNot(lt), vNot(eq))
			lt = gt
		}
		le = vOr(lt, vAnd(eq, le))
	}
	return le
}

func vRowLess(a, b []Column, keys []vOrderKey) bool { return vNot(vRowLeq(b, a, keys)) }

type vC07Tmpl struct {
	fields string
	order  string
	keys   []vOrderKey
	valpha string
}

const vDig = "0123456789"

var vC07Tmpls = []vC07Tmpl{
	{"key, value", "value", []vOrderKey{{1, false}}, "ab"},
	{"key, value", "value desc", []vOrderKey{{1, true}}, "ab"},
	{"key, value, int(value) as n", "n", []vOrderKey{{2, false}}, "019"},
	{"key, value, int(value) as n", "n desc", []vOrderKey{{2, true}}, "019"},
	{"key, value, is_int(value) as b", "b", []vOrderKey{{2, false}}, "1a"},
	{"key, value, is_int(value) as b", "b desc, key desc", []vOrderKey{{2, true}, {0, true}}, "1a"},
	{"key, value", "value, key desc", []vOrderKey{{1, false}, {0, true}}, "ab"},
	{"key, value, int(value) as n", "n desc, value", []vOrderKey{{2, true}, {1, false}}, "019"},
	{"key, strlen(value) as l, value", "l, value desc", []vOrderKey{{1, false}, {2, true}}, "ab"},
	{"key, value", "key asc", []vOrderKey{{0, false}}, "ab"},
	{"key, value", "key desc", []vOrderKey{{0, true}}, "ab"},
	{"key, is_int(value) as b, strlen(value) as l", "b, l desc, key", []vOrderKey{{1, false}, {2, true}, {0, false}}, "1a"},
	{"key, value", "key", []vOrderKey{{0, false}}, "ab"},
	{"key, value, upper(value) as u", "u desc, key", []vOrderKey{{2, true}, {0, false}}, "aAb"},
}

func VN_C07(tier int) int { return len(vC07Tmpls) }

func vIsSortedPermutation(ordered, unordered [][]Column, keys []vOrderKey) bool {
	ok := len(ordered) == len(unordered)
	if !ok {
		return false
	}
	for _, u := range unordered {
		found := false
		for _, o := range ordered {
			found = vOr(found, vRowEq(u, o))
		}
		ok = vAnd(ok, found)
	}
	for j := 0; j+1 < len(ordered); j++ {
		ok = vAnd(ok, vRowLeq(ordered[j], ordered[j+1], keys))
	}
	return ok
}

func VH_C07(t, n, B int) {
	tm := vC07Tmpls[t]
	st := vSymStore(n, 1, 1, 1, 2, "abc", tm.valpha)
	PlanBatchSize = B
	base := "select " + tm.fields + " where key >= ''"
	pu, err := NewOptimizer(base).BuildPlan(st.clone())
	vAssert(err == nil, "harness/C07-unordered-rejected")
	un := vDrainNext(pu, n+1)
	vAssert(un.err == nil, "harness/C07-unordered-error")
	q := base + " order by " + tm.order
	pn, err := NewOptimizer(q).BuildPlan(st.clone())
	vAssert(err == nil, "C07/ordered-statement-rejected")
	rn := vDrainNext(pn, n+1)
	vAssert(rn.err == nil, "C07/row-mode-error")
	vAssert(vIsSortedPermutation(rn.rows, un.rows, tm.keys), "C07/row-mode-not-a-sorted-permutation")
	pb, err := NewOptimizer(q).BuildPlan(st.clone())
	vAssert(err == nil, "C07/ordered-statement-rejected")
	rb := vDrainBatch(pb, n+1)
	vAssert(rb.err == nil, "C07/batch-mode-error")
	vAssert(vIsSortedPermutation(rb.rows, un.rows, tm.keys), "C07/batch-mode-not-a-sorted-permutation")
	if len(tm.keys) == 1 && tm.keys[0].col == 0 && !tm.keys[0].desc {
		// order by key asc alone leaves the natural order unchanged
		same := len(rn.rows) == len(un.rows)
		for i := range un.rows {
			if i < len(rn.rows) {
				same = vAnd(same, vRowEq(rn.rows[i], un.rows[i]))
			}
		}
		vAssert(same, "C07/order-by-key-asc-changes-the-natural-order")
	}
	vCover("ordered")
}

// VH_C07_L1: comparator lemma on orderColumnsRow.Less for every declared column type.
// kind: 0 text []byte, 1 text string, 2 int64, 3 pool float64, 4 bool, 5 int64 vs float64 mixture
func vSymCol(kind int, tag string) Column {
	switch kind {
	case 0:
		return vNondetBytes(tag, 0, 2, "")
	case 1:
		return vNondetString(tag, 0, 2, "ab")
	case 2:
		return vNondetInt64(tag)
	case 3:
		return vNondetFloatPool(tag, vFloatPool)
	case 4:
		return vNondetBool(tag)
	}
	if vChoose(tag+"k", 2) == 0 {
		return int64(vNondetInt(tag, -2, 3))
	}
	return vNondetFloatPool(tag, vFloatPool)
}

func VH_C07_L1(kind, desc int) {
	tp := TSTR
	switch kind {
	case 2, 3, 5:
		tp = TNUMBER
	case 4:
		tp = TBOOL
	}
	ord := ASC
	if desc == 1 {
		ord = DESC
	}
	orders := []OrderField{{Name: "c", Order: ord}}
	mk := func(tag string) *orderColumnsRow {
		return &orderColumnsRow{cols: []Column{vSymCol(kind, tag)}, orders: orders, orderPos: []int{0}, orderTypes: []Type{tp}}
	}
	a, b, c := mk("a"), mk("b"), mk("c")
	keys := []vOrderKey{{0, desc == 1}}
	vAssert(a.Less(b) == vRowLess(a.cols, b.cols, keys), "C07/L1-comparator-disagrees-with-reference")
	vAssert(!a.Less(a), "C07/L1-comparator-not-irreflexive")
	if a.Less(b) && b.Less(c) {
		vAssert(a.Less(c), "C07/L1-comparator-not-transitive")
	}
	vCover("compared")
}

// Generated ORDER BY clauses: every list of m entries over a pool of select fields, each entry
// without direction, asc or desc - repeats of a field included (a repeated field can never
// break a tie, so the reference is simply lexicographic over the list as written).
var vC07Sets = []struct {
	fields string
	names  []string
	valpha string
}{
	{"key, value, int(value) as n, strlen(value) as l", []string{"key", "value", "n", "l"}, "019"},
	{"key, value, is_int(value) as b, upper(value) as u, strlen(value) as l", []string{"key", "value", "b", "u", "l"}, "1aA"},
	// fields defined through other fields
	{"key as k, value as w, w + 'x' as m, strlen(w) + 1 as p", []string{"k", "w", "m", "p"}, "ab"},
}

func VH_C07_GEN(set, m, code, n, B int) {
	s := vC07Sets[set]
	order := ""
	var keys []vOrderKey
	for i := 0; i < m; i++ {
		e := code % (3 * len(s.names))
		code /= 3 * len(s.names)
		f, d := e/3, e%3
		if i > 0 {
			order += ", "
		}
		order += s.names[f] + []string{"", " asc", " desc"}[d]
		keys = append(keys, vOrderKey{f, d == 2})
	}
	st := vSymStore(n, 1, 1, 1, 2, "abc", s.valpha)
	PlanBatchSize = B
	base := "select " + s.fields + " where key >= ''"
	pu, err := NewOptimizer(base).BuildPlan(st.clone())
	vAssert(err == nil, "harness/C07-unordered-rejected")
	un := vDrainNext(pu, n+1)
	vAssert(un.err == nil, "harness/C07-unordered-error")
	q := base + " order by " + order
	pn, err := NewOptimizer(q).BuildPlan(st.clone())
	vAssert(err == nil, "C07/ordered-statement-rejected")
	rn := vDrainNext(pn, n+1)
	vAssert(rn.err == nil, "C07/row-mode-error")
	vAssert(vIsSortedPermutation(rn.rows, un.rows, keys), "C07/row-mode-not-a-sorted-permutation")
	pb, err := NewOptimizer(q).BuildPlan(st.clone())
	vAssert(err == nil, "C07/ordered-statement-rejected")
	rb := vDrainBatch(pb, n+1)
	vAssert(rb.err == nil, "C07/batch-mode-error")
	vAssert(vIsSortedPermutation(rb.rows, un.rows, keys), "C07/batch-mode-not-a-sorted-permutation")
	vCover("ordered")
}
