//go:build verif || verifreplay

package kvql

import "bytes"

// C18 — key-pinning filters read only the pinned keys or region.
// L1: each pinning atom's plan region is inside the atom's pinned region, with the plan kind the
//     property names (point reads for = and IN, nothing for unsatisfiable clauses).
// L2: for operands of the canonical family, the region of a conjunction lies inside the region
//     of one of its conjuncts, and is empty when the operands are disjoint on their face.
// L3 (physical reads) is part of VH_C02_L3.

// pinned region of the canonical operand forms (closed ranges, as the planner's RANGE)
func vPinned(form int, lits [][]byte, k []byte) bool {
	switch form {
	case 0:
		return false
	case 1:
		return true
	case 2:
		return bytes.Equal(k, lits[0])
	case 3:
		return vOr(bytes.Equal(k, lits[0]), bytes.Equal(k, lits[1]))
	case 4:
		return vOr(bytes.Equal(k, lits[0]), vOr(bytes.Equal(k, lits[1]), bytes.Equal(k, lits[2])))
	case 5:
		return bytes.HasPrefix(k, lits[0])
	case 6:
		return vAnd(bytes.Compare(lits[0], k) <= 0, bytes.Compare(k, lits[1]) <= 0)
	case 7:
		return bytes.Compare(lits[0], k) <= 0
	case 8:
		return bytes.Compare(k, lits[0]) <= 0
	case 9:
		return true
	}
	return true
}

// VH_C18_L1: the plan of a pinning atom stays inside the pinned region and has the named kind.
func VH_C18_L1(form, lmax int) {
	op := vMakeOperand(form, "a", 0, lmax, vLitAlpha)
	inverted := false
	if form == 6 {
		// a BETWEEN whose lower boundary is above the upper one pins nothing: it must read
		// nothing; equal boundaries are refused at evaluation and left out
		vAssume(vNot(bytes.Equal(op.lits[0], op.lits[1])))
		inverted = !op.wellFormed // forks
	} else {
		vAssume(op.wellFormed)
	}
	q := "select * where " + op.text
	o := NewOptimizer(q)
	vAssert(o.init() == nil, "harness/C18-L1-query-rejected")
	p := o.buildScanPlan(nil)
	k := vNondetBytes("k", 0, lmax+1, "")
	vAssert(vImplies(vGamma(p, k), vPinned(form, op.lits, k)), "C18/L1-plan-region-inside-pinned-region")
	kind := vPlanKind(p)
	switch form {
	case 0:
		vAssert(kind == 1, "C18/L1-unsatisfiable-clause-reads-nothing")
	case 2, 3, 4:
		vAssert(kind == 2, "C18/L1-equality-and-in-use-point-reads")
	case 5:
		// an empty prefix pins nothing: a full scan is the same region
		if len(op.lits[0]) > 0 {
			vAssert(kind == 3, "C18/L1-literal-prefix-uses-prefix-scan")
		}
	case 6:
		if inverted {
			vAssert(kind == 1, "C18/L1-unsatisfiable-clause-reads-nothing")
		} else {
			vAssert(kind == 4 || kind == 2, "C18/L1-literal-range-uses-range-scan")
		}
	case 7:
		if len(op.lits[0]) > 0 {
			vAssert(kind == 4, "C18/L1-literal-range-uses-range-scan")
		}
	case 8:
		vAssert(kind == 4 || kind == 2, "C18/L1-literal-range-uses-range-scan")
	}
	vCover("atom")
}

// disjoint "on their face": syntactic conditions on the literals of two pinning operands
func vFaceDisjoint(fl int, a [][]byte, fr int, b [][]byte) bool {
	isM := func(f int) bool { return f >= 2 && f <= 4 }
	switch {
	case isM(fl) && isM(fr): // key sets without a common element
		r := true
		for _, x := range a {
			for _, y := range b {
				r = vAnd(r, vNot(bytes.Equal(x, y)))
			}
		}
		return r
	case fl == 5 && fr == 5: // two prefixes neither of which extends the other
		return vAnd(vNot(bytes.HasPrefix(a[0], b[0])), vNot(bytes.HasPrefix(b[0], a[0])))
	case isM(fl) && fr == 5:
		r := true
		for _, x := range a {
			r = vAnd(r, vNot(bytes.HasPrefix(x, b[0])))
		}
		return r
	case fl == 5 && isM(fr):
		return vFaceDisjoint(fr, b, fl, a)
	case isM(fl) && fr >= 6 && fr <= 8:
		r := true
		for _, x := range a {
			r = vAnd(r, vNot(vPinned(fr, b, x)))
		}
		return r
	case fl >= 6 && fl <= 8 && isM(fr):
		return vFaceDisjoint(fr, b, fl, a)
	case fl >= 6 && fl <= 8 && fr >= 6 && fr <= 8: // hi1 < lo2 or hi2 < lo1
		var lo1, hi1, lo2, hi2 []byte
		switch fl {
		case 6:
			lo1, hi1 = a[0], a[1]
		case 7:
			lo1 = a[0]
		case 8:
			hi1 = a[0]
		}
		switch fr {
		case 6:
			lo2, hi2 = b[0], b[1]
		case 7:
			lo2 = b[0]
		case 8:
			hi2 = b[0]
		}
		r := false
		if hi1 != nil && lo2 != nil {
			r = vOr(r, bytes.Compare(hi1, lo2) < 0)
		}
		if hi2 != nil && lo1 != nil {
			r = vOr(r, bytes.Compare(hi2, lo1) < 0)
		}
		return r
	}
	return false
}

// VH_C18_L2: conjunction narrows to one conjunct; disjoint operands read nothing.
func VH_C18_L2(fl, fr, op, lmax int) {
	l := vMakeOperand(fl, "a", 0, lmax, vLitAlpha)
	r := vMakeOperand(fr, "b", 0, lmax, vLitAlpha)
	vAssume(l.wellFormed)
	vAssume(r.wellFormed)
	opText, opCode := vOpText(op) // op is 0 (&) or 2 (and)
	q := "select * where " + l.text + " " + opText + " " + r.text
	o := NewOptimizer(q)
	vAssert(o.init() == nil, "harness/C18-L2-query-rejected")
	root, ok := o.filter.Ast.Expr.(*BinaryOpExpr)
	vAssert(ok && root.Op == opCode, "harness/C18-L2-shape")
	pl := vScanPlanOf(o, root.Left)
	pr := vScanPlanOf(o, root.Right)
	pc := vScanPlanOf(o, root)
	vKnownC18(fl, l.lits, fr, r.lits)
	k1 := vNondetBytes("k1", 0, lmax+1, "")
	k2 := vNondetBytes("k2", 0, lmax+1, "")
	escL := vAnd(vGamma(pc, k1), vNot(vGamma(pl, k1)))
	escR := vAnd(vGamma(pc, k2), vNot(vGamma(pr, k2)))
	vAssert(vNot(vAnd(escL, escR)), "C18/L2-conjunction-inside-one-conjunct")
	if vFaceDisjoint(fl, l.lits, fr, r.lits) {
		_, empty := pc.(*EmptyResultPlan)
		vAssert(empty, "C18/L2-disjoint-conjuncts-read-nothing")
		vCover("disjoint")
	}
	vCover("and")
}

func vKnownC18(fl int, a [][]byte, fr int, b [][]byte) {
}

// VH_C18_E2E: whole statements. A pinning clause under projection, LIMIT (offsets beyond the
// result included), ORDER BY and aggregation, drained to the end in either mode, reads only keys
// of the pinned region plus at most one key beyond its end; equality and IN never open a cursor.
var vC18Suffixes = []string{"", " limit 1, 2", " limit 4, 5", " limit 0", " order by value", " order by key desc limit 2, 1", " & value = 'x'", " & value = 'x' limit 3, 1"}

func VN_C18_SUFFIX(tier int) int { return len(vC18Suffixes) }

func VH_C18_E2E(form, suffix, n, B, mode int) {
	op := vMakeOperand(form, "a", 0, 1, "ab")
	if form == 6 {
		vAssume(vNot(bytes.Equal(op.lits[0], op.lits[1]))) // inverted boundaries included: they pin nothing
	} else {
		vAssume(op.wellFormed)
	}
	st := vSymStore(n, 0, 2, 1, 1, "ab", "xy")
	PlanBatchSize = B
	q := "select * where " + op.text + vC18Suffixes[suffix]
	p, err := NewOptimizer(q).BuildPlan(st)
	vAssert(err == nil, "harness/C18-E2E-rejected")
	var r vRows
	if mode == 0 {
		r = vDrainNext(p, n+1)
	} else {
		r = vDrainBatch(p, n+1)
	}
	vAssert(r.err == nil, "harness/C18-E2E-error")
	beyond := 0
	cursors := 0
	for _, c := range st.log {
		switch c.Op {
		case "Cursor":
			cursors++
		case "Get":
			vAssert(vPinned(form, op.lits, c.Key), "C18/E2E-point-read-outside-the-pinned-keys")
		case "Next":
			if c.Key != nil && !vPinned(form, op.lits, c.Key) {
				beyond++
			}
		}
	}
	vAssert(beyond <= 1, "C18/E2E-more-than-one-key-read-beyond-the-pinned-region")
	if form >= 2 && form <= 4 {
		vAssert(cursors == 0, "C18/E2E-equality-or-IN-opens-a-cursor")
	}
	if form == 0 || (form == 6 && !op.wellFormed) {
		vAssert(len(st.log) == 0, "C18/E2E-unsatisfiable-clause-touches-storage")
	}
	vCover("drained")
}
