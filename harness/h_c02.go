//go:build verif || verifreplay

package kvql

import "bytes"

// C02 — scan narrowing never loses a row (compositional lemmas L1..L3, DESIGN.md §5).
// C18 — key-pinning filters read only the pinned region (dual lemmas, same operand family).

const vLitAlpha = "0123456789abcdefghijklmnopqrstuvwxyz"

// a small alphabet that still realises every order/prefix relation between ≤3-byte strings
const vLitAlphaSmall = "abc"

func vLit(tag string, minLen, maxLen int, alpha string) (string, []byte) {
	b := vNondetBytes(tag, minLen, maxLen, alpha)
	return "'" + string(b) + "'", b
}

// vGamma: is key k inside the region the scan node hands to the filter?
func vGamma(p Plan, k []byte) bool {
	switch p := p.(type) {
	case *EmptyResultPlan:
		return false
	case *FullScanPlan:
		return true
	case *MultiGetPlan:
		r := false
		for _, s := range p.Keys {
			r = vOr(r, bytes.Equal(k, []byte(s)))
		}
		return r
	case *PrefixScanPlan:
		return bytes.HasPrefix(k, []byte(p.Prefix))
	case *RangeScanPlan:
		r := true
		if p.Start != nil {
			r = vAnd(r, bytes.Compare(p.Start, k) <= 0)
		}
		if p.End != nil {
			r = vAnd(r, bytes.Compare(k, p.End) <= 0)
		}
		return r
	}
	vAssert(false, "harness/unknown-scan-node")
	return true
}

func vPlanKind(p Plan) int {
	switch p.(type) {
	case *EmptyResultPlan:
		return 1
	case *MultiGetPlan:
		return 2
	case *PrefixScanPlan:
		return 3
	case *RangeScanPlan:
		return 4
	case *FullScanPlan:
		return 5
	}
	return 0
}

// canonical operand family: one expression per reachable ScanType form
const vNumForms = 10

type vOperand struct {
	text string
	lits [][]byte
	// wellFormed is an assumption about the literals (BETWEEN lower < upper, etc.)
	wellFormed bool
}

func vMakeOperand(form int, tag string, lmin, lmax int, alpha string) vOperand {
	op := vOperand{wellFormed: true}
	lit := func(i int) string {
		t, b := vLit(tag+vItoa(i), lmin, lmax, alpha)
		op.lits = append(op.lits, b)
		return t
	}
	switch form {
	case 0: // EMPTY
		op.text = "key < ''"
	case 1: // FULL
		op.text = "value = 'x'"
	case 2: // MGET 1
		op.text = "key = " + lit(0)
	case 3: // MGET 2 (duplicates allowed)
		op.text = "key in (" + lit(0) + ", " + lit(1) + ")"
	case 4: // MGET 3
		op.text = "key in (" + lit(0) + ", " + lit(1) + ", " + lit(2) + ")"
	case 5: // PREFIX
		op.text = "key ^= " + lit(0)
	case 6: // RANGE [A,B]
		op.text = "key between " + lit(0) + " and " + lit(1)
		// lower > upper is legal text: no key satisfies it (its evaluation is refused), so it
		// contributes nothing to a disjunction and empties a conjunction; it is part of the
		// lemma's domain, only the closure side condition is stated for non-inverted operands
		op.wellFormed = bytes.Compare(op.lits[0], op.lits[1]) < 0 // equal boundaries are refused at evaluation too
	case 7: // RANGE [A,nil]
		op.text = "key >= " + lit(0)
	case 8: // RANGE [nil,A]
		op.text = "key <= " + lit(0)
	case 9: // RANGE [nil,nil] (only reachable through prefix | range)
		op.text = "(key ^= " + lit(0) + " | key <= " + lit(1) + ")"
	}
	return op
}

// vScanPlanOf builds the scan node the planner picks for an already parsed filter expression.
func vScanPlanOf(o *Optimizer, e Expression) Plan {
	fo := &FilterOptimizer{expr: e, storage: nil, filter: o.filter}
	return fo.Optimize()
}

func vOpText(op int) (string, Operator) {
	switch op {
	case 0:
		return "&", And
	case 1:
		return "|", Or
	case 2:
		return "and", KWAnd
	}
	return "or", KWOr
}

// VH_C02_L2: combinator lemma. For operands l, r of the canonical family with symbolic
// literals and a symbolic key k:
//   and:  k ∈ γ(l) ∧ k ∈ γ(r)  ⇒ k ∈ γ(l & r)      (C02: nothing is lost)
//   or:   k ∈ γ(l) ∨ k ∈ γ(r)  ⇒ k ∈ γ(l | r)
// and for C18 (mode 1), the dual:  γ(l & r) ⊆ γ(l)  or  γ(l & r) ⊆ γ(r)  is checked in VH_C18_L2.
func VH_C02_L2(fl, fr, op, lmax, alphaSel int) {
	alpha := vLitAlpha
	if alphaSel == 1 {
		alpha = vLitAlphaSmall
	}
	l := vMakeOperand(fl, "a", 0, lmax, alpha)
	r := vMakeOperand(fr, "b", 0, lmax, alpha)
	opText, opCode := vOpText(op)
	q := "select * where " + l.text + " " + opText + " " + r.text
	o := NewOptimizer(q)
	err := o.init()
	vAssert(err == nil, "harness/C02-L2-query-rejected")
	root, ok := o.filter.Ast.Expr.(*BinaryOpExpr)
	vAssert(ok && root.Op == opCode, "harness/C02-L2-shape")
	pl := vScanPlanOf(o, root.Left)
	pr := vScanPlanOf(o, root.Right)
	pc := vScanPlanOf(o, root)
	vKnownC02(pl, pr, op)
	k := vNondetBytes("k", 0, lmax+1, "")
	gl, gr, gc := vGamma(pl, k), vGamma(pr, k), vGamma(pc, k)
	if op == 0 || op == 2 {
		vAssert(vImplies(vAnd(gl, gr), gc), "C02/L2-and-covers-intersection")
		vCover("and")
	} else {
		vAssert(vImplies(vOr(gl, gr), gc), "C02/L2-or-covers-union")
		vCover("or")
	}
	// closure: a two-sided RANGE built from well-formed operands is not inverted
	if rp, ok := pc.(*RangeScanPlan); ok && rp.Start != nil && rp.End != nil && l.wellFormed && r.wellFormed {
		vAssert(bytes.Compare(rp.Start, rp.End) <= 0, "C02/closure-range-not-inverted")
	}
}

// vKnownC02 declares the regions of recorded findings for the combinator lemmas.
func vKnownC02(pl, pr Plan, op int) {
}

// ---------------------------------------------------------------- L1: atoms

// atom shapes over key with the literal on either side, opaque atoms, negations
const vNumAtoms = 26

type vAtom struct {
	text string
	// ref(k): documented meaning of the atom for key k; opaque atoms return true (they may
	// hold for any key, depending on the value)
	ref func(k []byte) bool
}

func vCmpRef(op string, keyLeft bool, a []byte) func(k []byte) bool {
	return func(k []byte) bool {
		x, y := k, a
		if !keyLeft {
			x, y = a, k
		}
		c := bytes.Compare(x, y)
		switch op {
		case "=":
			return c == 0
		case "!=":
			return c != 0
		case "^=":
			return bytes.HasPrefix(x, y)
		case ">":
			return c > 0
		case ">=":
			return c >= 0
		case "<":
			return c < 0
		case "<=":
			return c <= 0
		}
		return true
	}
}

var vCmpOps = []string{"=", "!=", "^=", ">", ">=", "<", "<="}

func vMakeAtom(i int, lmin, lmax int, alpha string) vAtom {
	switch {
	case i < 7: // key op lit
		t, a := vLit("a0", lmin, lmax, alpha)
		return vAtom{"key " + vCmpOps[i] + " " + t, vCmpRef(vCmpOps[i], true, a)}
	case i < 14: // lit op key
		t, a := vLit("a0", lmin, lmax, alpha)
		return vAtom{t + " " + vCmpOps[i-7] + " key", vCmpRef(vCmpOps[i-7], false, a)}
	case i == 14:
		t, a := vLit("a0", lmin, lmax, alpha)
		return vAtom{"key in (" + t + ")", func(k []byte) bool { return bytes.Equal(k, a) }}
	case i == 15:
		t0, a := vLit("a0", lmin, lmax, alpha)
		t1, b := vLit("a1", lmin, lmax, alpha)
		return vAtom{"key in (" + t0 + ", " + t1 + ")", func(k []byte) bool { return vOr(bytes.Equal(k, a), bytes.Equal(k, b)) }}
	case i == 16:
		t0, a := vLit("a0", lmin, lmax, alpha)
		t1, b := vLit("a1", lmin, lmax, alpha)
		t2, c := vLit("a2", lmin, lmax, alpha)
		return vAtom{"key in (" + t0 + ", " + t1 + ", " + t2 + ")", func(k []byte) bool {
			return vOr(bytes.Equal(k, a), vOr(bytes.Equal(k, b), bytes.Equal(k, c)))
		}}
	case i == 17:
		t0, a := vLit("a0", lmin, lmax, alpha)
		t1, b := vLit("a1", lmin, lmax, alpha)
		return vAtom{"key between " + t0 + " and " + t1, func(k []byte) bool {
			return vAnd(bytes.Compare(a, k) <= 0, bytes.Compare(k, b) <= 0)
		}}
	case i == 18:
		return vAtom{"value = 'x'", func(k []byte) bool { return true }}
	case i == 19:
		return vAtom{"value ^= 'x'", func(k []byte) bool { return true }}
	case i == 20:
		return vAtom{"key = value", func(k []byte) bool { return true }}
	case i == 21:
		return vAtom{"key > value", func(k []byte) bool { return true }}
	case i == 22: // negations are opaque to the planner
		t, a := vLit("a0", lmin, lmax, alpha)
		return vAtom{"!(key = " + t + ")", func(k []byte) bool { return vNot(bytes.Equal(k, a)) }}
	case i == 23:
		t, a := vLit("a0", lmin, lmax, alpha)
		return vAtom{"!(key ^= " + t + ")", func(k []byte) bool { return vNot(bytes.HasPrefix(k, a)) }}
	case i == 24: // key compared with a constant function call (folded to a literal)
		t, a := vLit("a0", lmin, lmax, alpha)
		return vAtom{"key = lower(" + t + ")", func(k []byte) bool { return bytes.Equal(k, a) }}
	case i == 25:
		t, a := vLit("a0", lmin, lmax, alpha)
		return vAtom{"key >= " + t + " + ''", func(k []byte) bool { return bytes.Compare(k, a) >= 0 }}
	}
	return vAtom{"true", func(k []byte) bool { return true }}
}

// VH_C02_L1: for every atom shape, a key satisfying the atom lies in the region of its plan.
func VH_C02_L1(atom, lmax, alphaSel int) {
	alpha := vLitAlpha
	if alphaSel == 1 {
		alpha = vLitAlphaSmall
	}
	a := vMakeAtom(atom, 0, lmax, alpha)
	q := "select * where " + a.text
	o := NewOptimizer(q)
	err := o.init()
	vAssert(err == nil, "harness/C02-L1-query-rejected")
	p := o.buildScanPlan(nil)
	k := vNondetBytes("k", 0, lmax+1, "")
	vKnownC02L1(atom, a, k)
	vAssert(vImplies(a.ref(k), vGamma(p, k)), "C02/L1-atom-region-covers-atom")
	vCover("atom")
}

func vKnownC02L1(atom int, a vAtom, k []byte) {
}

// ---------------------------------------------------------------- L3: physical scans

func vTrueFilter() *FilterExec {
	return &FilterExec{Ast: &WhereStmt{Expr: &BoolExpr{Data: "true", Bool: true}}}
}

// vSymRegionPlan builds a scan node of the given kind directly, with a symbolic region.
// kind: 0 empty, 1 full, 2 prefix, 3 range[a,b], 4 range[a,nil], 5 range[nil,b], 6 mget(1..3 keys)
func vSymRegionPlan(kind int, st Storage, lmax int, alpha string) Plan {
	f := vTrueFilter()
	switch kind {
	case 0:
		return NewEmptyResultPlan(st, f)
	case 1:
		return NewFullScanPlan(st, f)
	case 2:
		p := vNondetBytes("p", 0, lmax, alpha)
		return NewPrefixScanPlan(st, f, string(p))
	case 3:
		a := vNondetBytes("ra", 0, lmax, alpha)
		b := vNondetBytes("rb", 0, lmax, alpha)
		return NewRangeScanPlan(st, f, a, b)
	case 4:
		a := vNondetBytes("ra", 0, lmax, alpha)
		return NewRangeScanPlan(st, f, a, nil)
	case 5:
		b := vNondetBytes("rb", 0, lmax, alpha)
		return NewRangeScanPlan(st, f, nil, b)
	}
	nk := 1 + vChoose("nkeys", 3)
	keys := make([]string, nk)
	for i := range keys {
		keys[i] = string(vNondetBytes("m"+vItoa(i), 0, lmax, alpha))
	}
	return NewMultiGetPlan(st, f, keys)
}

func vDrainPlanNext(p Plan, max int) ([]KVPair, error) {
	ctx := NewExecuteCtx()
	var out []KVPair
	for i := 0; i <= max; i++ {
		k, v, err := p.Next(ctx)
		if err != nil {
			return out, err
		}
		if k == nil && v == nil {
			return out, nil
		}
		out = append(out, NewKVP(k, v))
	}
	vAssert(false, "harness/plan-next-does-not-terminate")
	return out, nil
}

func vDrainPlanBatch(p Plan, max int) ([]KVPair, error) {
	ctx := NewExecuteCtx()
	var out []KVPair
	for i := 0; i <= max; i++ {
		rows, err := p.Batch(ctx)
		if err != nil {
			return out, err
		}
		if len(rows) == 0 {
			return out, nil
		}
		out = append(out, rows...)
		ctx.Clear()
	}
	vAssert(false, "harness/plan-batch-does-not-terminate")
	return out, nil
}

// VH_C02_L3: a scan node hands every stored key of its region to the filter exactly once, in
// ascending order, in both iteration modes; and (C18) it reads nothing outside the region
// except at most one key beyond its end, point plans never open a cursor, the empty plan
// touches nothing.
func VH_C02_L3(kind, n, B, mode int) {
	// all 256 byte values (0x00 and 0xff included) for stored keys and region boundaries;
	// key length <= 1 + n/3 keeps the number of orderings small
	alpha := ""
	st := vSymStore(n, 0, 2, 1, 1, alpha, "xy")
	PlanBatchSize = B
	p := vSymRegionPlan(kind, st, 2, alpha)
	vAssert(p.Init() == nil, "harness/C02-L3-init")
	var rows []KVPair
	var err error
	if mode == 0 {
		rows, err = vDrainPlanNext(p, n+1)
	} else {
		rows, err = vDrainPlanBatch(p, n+1)
	}
	vAssert(err == nil, "C02/L3-scan-error")
	// expected: the stored pairs whose key is in the region, in store order
	j := 0
	ok := true
	for i := 0; i < n; i++ {
		in := vGamma(p, st.keys[i])
		if in { // forks: which stored keys lie in the region
			if j < len(rows) {
				ok = vAnd(ok, vAnd(bytes.Equal(rows[j].Key, st.keys[i]), bytes.Equal(rows[j].Value, st.vals[i])))
			} else {
				ok = false
			}
			j++
		}
	}
	vAssert(vAnd(ok, j == len(rows)), "C02/L3-region-keys-once-in-order")
	vCover("drained")
	// C18 physical part: what was read
	beyond := 0
	cursors := 0
	for _, c := range st.log {
		switch c.Op {
		case "Cursor":
			cursors++
		case "Get":
			vAssert(vGamma(p, c.Key), "C18/L3-point-read-inside-key-set")
		case "Next":
			if c.Key != nil && !vGamma(p, c.Key) {
				beyond++
			}
		case "Put", "BatchPut", "Delete", "BatchDelete":
			vAssert(false, "C13/scan-mutates")
		}
	}
	vAssert(beyond <= 1, "C18/L3-at-most-one-key-beyond-region")
	switch p.(type) {
	case *MultiGetPlan:
		vAssert(cursors == 0, "C18/L3-point-plan-opens-no-cursor")
	case *EmptyResultPlan:
		vAssert(len(st.log) == 0, "C18/L3-empty-plan-touches-storage")
	}
}
