//go:build verifreplay

package kvql

import (
	"fmt"
	"os"
	"testing"
)

// TestVReplay replays solver-produced input vectors against the natively compiled package.
// For every case it prints one line "VREPLAY <index> <outcome>"; the driver compares the outcome
// with what the engine predicted. A Go panic that is not recovered (fatal error, stack overflow)
// kills the process; the driver then sees the missing line.
func TestVReplay(t *testing.T) {
	path := os.Getenv("VREPLAY_FILE")
	if path == "" {
		t.Skip("no VREPLAY_FILE")
	}
	cases, err := vLoadCases(path)
	if err != nil {
		t.Fatal(err)
	}
	for i, c := range cases {
		fmt.Printf("VREPLAY-START %d\n", i)
		out := vRunReplay(c)
		first := out
		for j := 0; j < len(first); j++ {
			if first[j] == '\n' {
				first = first[:j]
				break
			}
		}
		fmt.Printf("VREPLAY %d %s\n", i, first)
		if len(out) > len(first) && os.Getenv("VREPLAY_VERBOSE") != "" {
			fmt.Println(out)
		}
	}
}
