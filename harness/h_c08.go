//go:build verif || verifreplay

package kvql

// C08 — LIMIT returns exactly the requested slice of the unlimited result.
// L1: the limit state machines over a stub child that delivers numbered rows in chunks of
// arbitrary sizes; offset and count are solver variables.

type vStubFinal struct {
	chunks []int // sizes of the batches the child returns, in order (then empty for ever)
	total  int
	pos    int // rows delivered so far
	ci     int
	polls  int
}

func (s *vStubFinal) String() string         { return "stub" }
func (s *vStubFinal) Explain() []string      { return []string{"stub"} }
func (s *vStubFinal) Init() error            { return nil }
func (s *vStubFinal) FieldNameList() []string { return []string{"i"} }
func (s *vStubFinal) FieldTypeList() []Type  { return []Type{TNUMBER} }
func (s *vStubFinal) Next(ctx *ExecuteCtx) ([]Column, error) {
	s.polls++
	if s.pos >= s.total {
		return nil, nil
	}
	r := []Column{int64(s.pos)}
	s.pos++
	return r, nil
}
func (s *vStubFinal) Batch(ctx *ExecuteCtx) ([][]Column, error) {
	s.polls++
	if s.ci >= len(s.chunks) {
		return nil, nil
	}
	n := s.chunks[s.ci]
	s.ci++
	rows := make([][]Column, n)
	for i := range rows {
		rows[i] = []Column{int64(s.pos)}
		s.pos++
	}
	return rows, nil
}

type vStubPlan struct{ f vStubFinal }

func (s *vStubPlan) String() string    { return "stub" }
func (s *vStubPlan) Explain() []string { return []string{"stub"} }
func (s *vStubPlan) Init() error       { return nil }
func (s *vStubPlan) Next(ctx *ExecuteCtx) ([]byte, []byte, error) {
	r, _ := s.f.Next(ctx)
	if r == nil {
		return nil, nil, nil
	}
	return []byte{byte(r[0].(int64))}, []byte{'v'}, nil
}
func (s *vStubPlan) Batch(ctx *ExecuteCtx) ([]KVPair, error) {
	rows, _ := s.f.Batch(ctx)
	out := make([]KVPair, len(rows))
	for i, r := range rows {
		out[i] = NewKVP([]byte{byte(r[0].(int64))}, []byte{'v'})
	}
	if len(out) == 0 {
		return nil, nil
	}
	return out, nil
}

// vChunks chooses a chunking: up to maxChunks chunks, each of 1..B rows.
func vChunks(B, maxChunks, maxTotal int) ([]int, int) {
	n := vChoose("nchunks", maxChunks+1)
	chunks := make([]int, n)
	total := 0
	for i := range chunks {
		chunks[i] = 1 + vChoose("chunk"+vItoa(i), B)
		total += chunks[i]
	}
	vAssume(total <= maxTotal)
	return chunks, total
}

// VH_C08_L1(kind, B): kind 0/1 FinalLimitPlan row/batch, 2/3 LimitPlan row/batch.
func VH_C08_L1(kind, B, maxChunks, maxTotal, maxSC int) {
	PlanBatchSize = B
	chunks, total := vChunks(B, maxChunks, maxTotal)
	s := vNondetInt("start", 0, maxSC)
	c := vNondetInt("count", 0, maxSC)
	var out []int64
	max := total + 2
	ctx := NewExecuteCtx()
	switch kind {
	case 0, 1:
		child := &vStubFinal{chunks: chunks, total: total}
		p := &FinalLimitPlan{Start: s, Count: c, ChildPlan: child, FieldNames: child.FieldNameList(), FieldTypes: child.FieldTypeList()}
		vAssert(p.Init() == nil, "harness/C08-init")
		for i := 0; ; i++ {
			vAssert(i <= max, "C08/L1-limit-does-not-terminate")
			if kind == 0 {
				r, err := p.Next(ctx)
				vAssert(err == nil, "C08/L1-error")
				if r == nil {
					break
				}
				out = append(out, r[0].(int64))
			} else {
				rows, err := p.Batch(ctx)
				vAssert(err == nil, "C08/L1-error")
				if len(rows) == 0 {
					break
				}
				for _, r := range rows {
					out = append(out, r[0].(int64))
				}
				ctx.Clear()
			}
		}
		// further polls return nothing
		for i := 0; i < 2; i++ {
			if kind == 0 {
				r, _ := p.Next(ctx)
				vAssert(r == nil, "C08/L1-rows-after-end")
			} else {
				rows, _ := p.Batch(ctx)
				vAssert(len(rows) == 0, "C08/L1-rows-after-end")
			}
		}
	default:
		child := &vStubPlan{f: vStubFinal{chunks: chunks, total: total}}
		p := &LimitPlan{Start: s, Count: c, ChildPlan: child}
		vAssert(p.Init() == nil, "harness/C08-init")
		for i := 0; ; i++ {
			vAssert(i <= max, "C08/L1-limit-does-not-terminate")
			if kind == 2 {
				k, v, err := p.Next(ctx)
				vAssert(err == nil, "C08/L1-error")
				if k == nil && v == nil {
					break
				}
				out = append(out, int64(k[0]))
			} else {
				rows, err := p.Batch(ctx)
				vAssert(err == nil, "C08/L1-error")
				if len(rows) == 0 {
					break
				}
				for _, r := range rows {
					out = append(out, int64(r.Key[0]))
				}
				ctx.Clear()
			}
		}
		for i := 0; i < 2; i++ {
			if kind == 2 {
				k, v, _ := p.Next(ctx)
				vAssert(k == nil && v == nil, "C08/L1-rows-after-end")
			} else {
				rows, _ := p.Batch(ctx)
				vAssert(len(rows) == 0, "C08/L1-rows-after-end")
			}
		}
	}
	// expected: indices [s, min(s+c, total))
	end := vIteInt(s+c < total, s+c, total)
	want := vIteInt(end > s, end-s, 0)
	ok := len(out) == want
	for j, x := range out {
		ok = vAnd(ok, x == int64(s+j))
	}
	vAssert(ok, "C08/L1-output-is-the-requested-slice")
	vCover("sliced")
}

// vColEq compares two column values by content: text as bytes (string or []byte), numbers by
// kind and value, booleans, nil. Returns a single Boolean term.
func vColEq(a, b Column) bool {
	if ab, ok := vColBytes(a); ok {
		bb, ok2 := vColBytes(b)
		if !ok2 {
			return false
		}
		return vEqBytes(ab, bb)
	}
	switch x := a.(type) {
	case int64:
		y, ok := b.(int64)
		return ok && x == y
	case int:
		y, ok := b.(int)
		return ok && x == y
	case float64:
		y, ok := b.(float64)
		return ok && x == y
	case bool:
		y, ok := b.(bool)
		return ok && x == y
	case nil:
		return b == nil
	}
	vAssert(false, "harness/vColEq-unsupported-column-type")
	return false
}

func vRowEq(a, b []Column) bool {
	if len(a) != len(b) {
		return false
	}
	ok := true
	for i := range a {
		ok = vAnd(ok, vColEq(a[i], b[i]))
	}
	return ok
}

// vIsSlice: out == all[s : min(s+c, len(all))] with symbolic s, c.
func vIsSlice(out, all [][]Column, s, c int) bool {
	total := len(all)
	end := vIteInt(s+c < total, s+c, total)
	want := vIteInt(end > s, end-s, 0)
	ok := len(out) == want
	for j := range out {
		for i := range all {
			ok = vAnd(ok, vImplies(s+j == i, vRowEq(out[j], all[i])))
		}
		ok = vAnd(ok, s+j < total)
	}
	return ok
}

func vDigitsInt(tag string, maxDigits int) (string, int) {
	d := vNondetBytes(tag, 1, maxDigits, "0123456789")
	return string(d), int(vDecimalValue(d))
}

// VH_C08_L2(kind, n, B, form): limited statements end to end; offset and count are decimal
// digits that pass through the real lexer and parseLimit.
// kind 0 plain, 1 ordered by value (distinct values), 2 grouped by key, 3 grouped by value (groups interleave); form 0 "limit s, n", 1 "limit n".
func VH_C08_L2(kind, n, B, form int) {
	PlanBatchSize = B
	keys := make([][]byte, n)
	vals := make([][]byte, n)
	for i := 0; i < n; i++ {
		keys[i] = []byte{byte('a' + i)}
		vals[i] = vNondetBytes("v"+vItoa(i), 1, 1, "0123")
	}
	st := vNewStoreFrom(keys, vals)
	base := "select * where key >= 'a'"
	switch kind {
	case 1:
		base = "select key, value where key >= 'a' order by value"
		for i := 0; i < n; i++ {
			for j := i + 1; j < n; j++ {
				vAssume(vals[i][0] != vals[j][0])
			}
		}
	case 2:
		base = "select key, count(1) where key >= 'a' group by key"
	case 3:
		// groups interleave in key order: every assignment of rows to groups is explored
		base = "select value, count(1), max(key) where key >= 'a' group by value"
	}
	var s, c int
	var lim string
	if form == 0 {
		ts, vs := vDigitsInt("S", 2)
		tc, vc := vDigitsInt("C", 2)
		s, c = vs, vc
		lim = " limit " + ts + ", " + tc
	} else {
		tc, vc := vDigitsInt("C", 2)
		s, c = 0, vc
		lim = " limit " + tc
	}
	pu, err := NewOptimizer(base).BuildPlan(st.clone())
	vAssert(err == nil, "harness/C08-L2-unlimited-rejected")
	all := vDrainNext(pu, n+1)
	vAssert(all.err == nil, "harness/C08-L2-unlimited-error")
	pn, err := NewOptimizer(base + lim).BuildPlan(st.clone())
	vAssert(err == nil, "C08/L2-limited-statement-rejected")
	rn := vDrainNext(pn, n+1)
	vAssert(rn.err == nil, "C08/L2-row-mode-error")
	vAssert(vIsSlice(rn.rows, all.rows, s, c), "C08/L2-row-mode-is-the-requested-slice")
	pb, err := NewOptimizer(base + lim).BuildPlan(st.clone())
	vAssert(err == nil, "C08/L2-limited-statement-rejected")
	rb := vDrainBatch(pb, n+1)
	vAssert(rb.err == nil, "C08/L2-batch-mode-error")
	vAssert(vIsSlice(rb.rows, all.rows, s, c), "C08/L2-batch-mode-is-the-requested-slice")
	vCover("sliced")
}

// VH_C08_DEL: delete ... limit removes exactly the pairs the limited select returns.
// access 0: range scan over everything; 1: point reads of every stored key (listed in reverse
// order, plus one absent key); 2: point read of one key.
func VH_C08_DEL(n, B, access int) {
	PlanBatchSize = B
	keys := make([][]byte, n)
	vals := make([][]byte, n)
	for i := 0; i < n; i++ {
		keys[i] = []byte{byte('a' + i)}
		vals[i] = []byte{'v'}
	}
	st := vNewStoreFrom(keys, vals)
	ts, s := vDigitsInt("S", 1)
	tc, c := vDigitsInt("C", 1)
	lim := " limit " + ts + ", " + tc
	where := "key >= 'a'"
	selected := func(i int) (bool, int) { return true, i } // selected by WHERE, rank among the selected
	switch access {
	case 1:
		where = "key in ('zz'"
		for i := n - 1; i >= 0; i-- {
			where += ", '" + string(keys[i]) + "'"
		}
		where += ")"
	case 2:
		if n < 2 {
			return
		}
		where = "key = 'b'"
		selected = func(i int) (bool, int) { return i == 1, 0 }
	}
	pd, err := NewOptimizer("delete where " + where + lim).BuildPlan(st)
	vAssert(err == nil, "C08/DEL-rejected")
	r := vDrainBatch(pd, 2)
	vAssert(r.err == nil, "C08/DEL-error")
	// pair i must be gone iff it is selected and its rank lies in s..s+c-1
	ok := true
	for i := 0; i < n; i++ {
		_, present := st.lookup(keys[i])
		sel, rank := selected(i)
		inSlice := vAnd(sel, vAnd(s <= rank, rank < s+c))
		ok = vAnd(ok, present == vNot(inSlice))
	}
	vAssert(ok, "C08/DEL-deleted-keys-are-the-limited-slice")
	vCover("deleted")
}
