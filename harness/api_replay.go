//go:build verifreplay

package kvql

// Native bodies of the engine intrinsics: values come from a replay vector produced by the
// solver; vAssert records failures instead of deciding them.

import (
	"encoding/json"
	"fmt"
	"os"
	"runtime/debug"
)

type vReplayItem struct {
	K string `json:"k"`
	T string `json:"t"`
	V int64  `json:"v"`
}

type vReplayCase struct {
	Harness string        `json:"harness"`
	Args    []int         `json:"args"`
	Vector  []vReplayItem `json:"vector"`
	Expect  string        `json:"expect"` // "fail:<assert id>", "panic", "pass"
	NoKnown bool          `json:"-"`
}

type vReplayState struct {
	vec      []vReplayItem
	pos      int
	failed   []string
	covers   map[string]bool
	known    map[string]bool
	mismatch string
}

var vR *vReplayState

type vAssumeFailed struct{}

func vNext(kind, tag string) int64 {
	if vR == nil {
		panic("vNondet* called outside a replay")
	}
	if vR.pos >= len(vR.vec) {
		if vR.mismatch == "" {
			vR.mismatch = fmt.Sprintf("vector exhausted at %s %s", kind, tag)
		}
		panic(vAssumeFailed{})
	}
	it := vR.vec[vR.pos]
	vR.pos++
	if it.K != kind || it.T != tag {
		if vR.mismatch == "" {
			vR.mismatch = fmt.Sprintf("vector item %d is %s %s, harness asked %s %s", vR.pos-1, it.K, it.T, kind, tag)
		}
		panic(vAssumeFailed{})
	}
	return it.V
}

func vNondetByte(tag string, alphabet string) byte { return byte(vNext("byte", tag)) }
func vNondetInt(tag string, lo, hi int) int        { return int(vNext("int", tag)) }
func vNondetInt64(tag string) int64                { return vNext("int64", tag) }
func vNondetBool(tag string) bool                  { return vNext("bool", tag) != 0 }
func vNondetBytes(tag string, minLen, maxLen int, alphabet string) []byte {
	n := int(vNext("len", tag))
	r := make([]byte, n)
	for i := range r {
		r[i] = byte(vNext("byte", fmt.Sprintf("%s[%d]", tag, i)))
	}
	return r
}
func vNondetString(tag string, minLen, maxLen int, alphabet string) string {
	return string(vNondetBytes(tag, minLen, maxLen, alphabet))
}
func vNondetFloatPool(tag string, pool []float64) float64 { return pool[int(vNext("int", tag))] }
func vChoose(tag string, n int) int                      { return int(vNext("choose", tag)) }
func vAssume(c bool) {
	if !c {
		panic(vAssumeFailed{})
	}
}
func vAssert(c bool, id string) {
	if !c {
		vR.failed = append(vR.failed, id)
		panic(vAssumeFailed{}) // the engine stops exploring this input here as well
	}
}
func vCover(id string)          { vR.covers[id] = true }
func vKnown(id string, c bool) {
	if c {
		vR.known[id] = true
	}
}
func vLog(v any)                { fmt.Fprintf(os.Stderr, "vLog: %v\n", v) }
func vIsReplay() bool           { return true }
func vConcretize(x int) int     { return x }
func vSharedWrites() []string   { return nil }
func vMarkShared()              {}
func vReverseMaps(on bool)      {}
func vAllowSymMul(on bool)      {}
func vAnd(a, b bool) bool     { return a && b }
func vOr(a, b bool) bool      { return a || b }
func vNot(a bool) bool        { return !a }
func vImplies(a, b bool) bool { return !a || b }
func vIteInt(c bool, a, b int) int {
	if c {
		return a
	}
	return b
}
func vIteByte(c bool, a, b byte) byte {
	if c {
		return a
	}
	return b
}
func vFreeParseFloat(on bool) {}
func vLazyFormat(on bool)     {}
func vTry(f func()) (msg string, panicked bool) {
	defer func() {
		if p := recover(); p != nil {
			if _, ok := p.(vAssumeFailed); ok {
				panic(p)
			}
			msg = fmt.Sprint(p)
			panicked = true
		}
	}()
	f()
	return "", false
}

// vRunReplay runs one case and reports what happened:
// "pass", "fail:<id>", "panic:<msg>", "assume-failed", "mismatch:<why>".
func vRunReplay(c *vReplayCase) (outcome string) {
	h, ok := vHarnesses[c.Harness]
	if !ok {
		return "mismatch:no such harness " + c.Harness
	}
	vR = &vReplayState{vec: c.Vector, covers: map[string]bool{}, known: map[string]bool{}}
	defer func() {
		st := vR
		if p := recover(); p != nil {
			if _, ok := p.(vAssumeFailed); ok {
				switch {
				case st.mismatch != "":
					outcome = "mismatch:" + st.mismatch
				case len(st.failed) > 0:
					outcome = "fail:" + st.failed[0]
				default:
					outcome = "assume-failed"
				}
				return
			}
			outcome = fmt.Sprintf("panic:%v\n%s", p, debug.Stack())
			return
		}
	}()
	h(c.Args)
	if len(vR.failed) > 0 {
		return "fail:" + vR.failed[0]
	}
	return "pass"
}

func vLoadCases(path string) ([]*vReplayCase, error) {
	b, err := os.ReadFile(path)
	if err != nil {
		return nil, err
	}
	var cs []*vReplayCase
	if err := json.Unmarshal(b, &cs); err != nil {
		return nil, err
	}
	return cs, nil
}
