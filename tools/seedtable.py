#!/usr/bin/env python3
"""seedtable.py [suffix] : markdown table of the seeded changes under /verif/seeded (suffix '' = round 1, '-r2' = round 2)"""
import json, glob, os, sys
suf = sys.argv[1] if len(sys.argv) > 1 else ""
base = os.path.join(os.path.dirname(os.path.abspath(__file__)), "..", "seeded")
print("| seed | file | needs to manifest | caught by |")
print("|---|---|---|---|")
for d in sorted(glob.glob(base + "/*")):
    n = os.path.basename(d)
    if (suf and not n.endswith(suf)) or (not suf and "-" in n):
        continue
    m = json.load(open(d + "/meta.json"))
    print("| %s | %s | %s | %s |" % (n, ", ".join(m["files_changed"]), m["needs_to_manifest"].replace("|", "\\|"), m["caught_by"].replace("|", "\\|")))
