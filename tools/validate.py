#!/opt/veriftools/pyvenv/bin/python3
import json, jsonschema, glob, sys
jsonschema.validate(json.load(open('/verif/MANIFEST.json')), json.load(open('/root/.vp/MANIFEST.schema.json')))
es = json.load(open('/root/.vp/EVIDENCE.schema.json'))
for f in sorted(glob.glob('/verif/evidence/*.json')):
    jsonschema.validate(json.load(open(f)), es)
    print('ok', f)
print('manifest ok')
