#!/bin/sh
# tryseed2.sh <worktree> <ID> [tier] : run a check against a scratch worktree holding a seeded change (demo file moved aside)
wt=$1; id=$2; tier=${3:-quick}
cd /verif && mv $wt/zz_seeded_demo_test.go /tmp/demo_$$.keep 2>/dev/null
GOSYM_REPO=$wt ./check $id $tier 2>&1 | grep -v "^  inputs\|^  native" | tail -8
mv /tmp/demo_$$.keep $wt/zz_seeded_demo_test.go 2>/dev/null
