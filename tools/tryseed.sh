#!/bin/sh
# tryseed.sh <worktree> <ID> [tier] : confirm a seeded change in its scratch worktree and run a check against it
wt=$1; id=$2; tier=${3:-quick}
export GOFLAGS=-mod=mod GOPROXY=off GOSUMDB=off GOTOOLCHAIN=local
cd $wt || exit 2
echo "== build + existing suite with the change (demo excluded)"
go build ./... || { echo "DOES NOT COMPILE"; exit 1; }
go test -vet=off -count=1 -skip '^TestSeededDemo$' ./... 2>&1 | tail -1
echo "== demo with the change (must fail)"
go test -vet=off -count=1 -run '^TestSeededDemo$' . 2>&1 | tail -3
echo "== demo without the change (must pass)"
git diff > /tmp/tryseed_$id.diff && git apply -R /tmp/tryseed_$id.diff && go test -vet=off -count=1 -run '^TestSeededDemo$' . 2>&1 | tail -1; git apply /tmp/tryseed_$id.diff
echo "== check $id $tier against the changed tree"
cd /verif && mv $wt/zz_seeded_demo_test.go /tmp/demo_$id.go.keep
GOSYM_REPO=$wt ./check $id $tier 2>&1 | grep -v "^  inputs\|^  native" | tail -12
echo "exit=$?"
mv /tmp/demo_$id.go.keep $wt/zz_seeded_demo_test.go
