#!/bin/sh
# seedregress.sh [id...] : apply every stored seeded change to a scratch worktree of /repo's HEAD
# and run the registered quick check of its property against it; each must report a violation.
export GOFLAGS=-mod=mod GOPROXY=off GOSUMDB=off GOTOOLCHAIN=local
cd "$(dirname "$0")/.."
V=$(pwd)
mkdir -p out
ids="$@"
[ -z "$ids" ] && ids=$(ls seeded)
wt=/tmp/wt/R$$
for id in $ids; do
  prop=${id%%-*}
  git -C /repo worktree add -q --detach $wt HEAD 2>/dev/null || { echo "$id: cannot create worktree"; continue; }
  if ! git -C $wt apply $V/seeded/$id/patch.diff 2>/dev/null; then
    echo "$id: patch does not apply to the current HEAD (the code it changed was repaired later)"
  elif ! (cd $wt && go build ./... 2>/dev/null); then
    echo "$id: does not compile on the current HEAD"
  else
    s=$(date +%s)
    GOSYM_REPO=$wt ./check $prop quick > out/regress_$id.log 2>&1
    rc=$?
    e=$(date +%s)
    echo "$id: rc=$rc violations=$(grep -c '^VIOLATION' out/regress_$id.log) inconclusive=$(grep -c '^INCONCLUSIVE' out/regress_$id.log) $((e-s))s"
  fi
  git -C /repo worktree remove --force $wt
done
git -C /repo worktree prune
