#!/usr/bin/env python3
"""saveseed.py <ID> <worktree> <caught_by> <needs...> : store a confirmed seeded change under /verif/seeded/<ID>/"""
import sys, os, shutil, json, subprocess
sid, wt, caught = sys.argv[1], sys.argv[2], sys.argv[3]
needs = " ".join(sys.argv[4:])
d = "/verif/seeded/" + sid
os.makedirs(d, exist_ok=True)
diff = subprocess.run(["git", "-C", wt, "diff"], capture_output=True, text=True).stdout
open(d + "/patch.diff", "w").write(diff)
shutil.copy(wt + "/zz_seeded_demo_test.go", d + "/zz_seeded_demo_test.go")
if os.path.exists(wt + "/SEEDED.md"):
    shutil.copy(wt + "/SEEDED.md", d + "/SEEDED.md")
meta = {
    "property": sid.split("-")[0],
    "files_changed": [l.split()[0] for l in subprocess.run(["git", "-C", wt, "diff", "--stat"], capture_output=True, text=True).stdout.splitlines()[:-1]],
    "needs_to_manifest": needs,
    "confirmed": "in the sub-agent's scratch worktree: package builds, the 80 pinned tests pass with the change (demo excluded), TestSeededDemo fails with the change and passes after `git apply -R patch.diff`",
    "checked_with": "GOSYM_REPO=<worktree> ./check %s quick (same engine and harness as the registered command, pointed at the worktree)" % sid.split("-")[0],
    "caught_by": caught,
}
json.dump(meta, open(d + "/meta.json", "w"), indent=1)
print("saved", d)
