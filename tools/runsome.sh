#!/bin/sh
# runsome.sh <tier> <timeout_s> <ID>... : run the given checks one after another with a wall-clock cap each
tier=$1; cap=$2; shift 2
cd "$(dirname "$0")/.."
mkdir -p out
for p in "$@"; do
  s=$(date +%s)
  timeout $cap ./check $p $tier > out/run_${p}_$tier.log 2>&1
  rc=$?
  e=$(date +%s)
  echo "$p $tier rc=$rc $((e-s))s $(grep -c '^VIOLATION' out/run_${p}_$tier.log) violations $(grep -c '^INCONCLUSIVE' out/run_${p}_$tier.log) inconclusive"
done
