#!/bin/sh
# runall.sh <tier> : run every registered check, print one summary line each
tier=${1:-quick}
cd "$(dirname "$0")/.."
mkdir -p out
for p in $(python3 -c "import json;print(' '.join(c['property_id'] for c in json.load(open('MANIFEST.json'))['checks']))"); do
  s=$(date +%s)
  ./check $p $tier > out/run_$p.log 2>&1
  rc=$?
  e=$(date +%s)
  echo "$p rc=$rc $((e-s))s $(grep -c '^VIOLATION' out/run_$p.log) violations $(grep -c '^INCONCLUSIVE' out/run_$p.log) inconclusive $(grep -c '^KNOWN-FINDING' out/run_$p.log) known"
done
