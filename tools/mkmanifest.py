#!/usr/bin/env python3
"""Regenerates /verif/MANIFEST.json from checks.json and tools/manifest_text.json."""
import json, os
V = os.path.dirname(os.path.dirname(os.path.abspath(__file__)))
checks = json.load(open(os.path.join(V, 'checks.json')))
text = json.load(open(os.path.join(V, 'tools', 'manifest_text.json')))
props = [json.loads(l) for l in open(os.path.join(V, 'properties.jsonl'))]
fix_commits = []
try:
    for k in json.load(open(os.path.join(V, 'known_findings.json'))):
        if k.get('status') == 'fixed' and k.get('commit') and k['commit'] not in fix_commits:
            fix_commits.append(k['commit'])
except Exception:
    pass
m = {
    "version": 1,
    "setup_cmd": "cd /verif/engine && GOFLAGS=-mod=mod GOPROXY=off GOSUMDB=off GOTOOLCHAIN=local go build -o ../bin/gosym . && cd /verif && ./check --selftest",
    "hooks": {
        "guard": "verif",
        "enable": "no hooks in /repo: harness files under /verif/harness are injected into package kvql as /repo/zz_verif_*.go by go/packages Overlay (-tags verif, symbolic engine) and by `go test -overlay` (-tags verifreplay, native replay)",
        "baseline_off_cmd": "cd /repo && go test -vet=off -count=1 ./...",
        "source_commits": [],
        "add_only": True,
    },
    "engines": [{
        "name": "gosym", "path": "/verif/engine",
        "serves_properties": sorted(checks.keys()),
        "kind_free_text": "bounded symbolic executor for Go SSA (go/ssa of /repo's current tree + overlay harness), path exploration by re-execution, SMT queries to z3 over pipes, native replay of every counterexample",
    }],
    "checks": [],
    "not_applicable": [],
    "notes": text.get("_notes", ""),
}
for p in props:
    pid = p['id']
    if pid in checks and pid in text:
        t = text[pid]
        c = {
            "property_id": pid,
            "quick_cmd": "./check %s quick" % pid,
            "thorough_cmd": "./check %s thorough" % pid,
            "evidence_file": "/verif/evidence/%s.json" % pid,
            "replay_cmd_template": "./check --replay {path}",
            "engine": "gosym",
            "level_claimed": {"category": t.get("category", "model_checking"), "text": t["level_text"], "design_ref": t.get("design_ref", "DESIGN.md section 5 " + pid)},
            "level_note": t["level_note"],
            "technique": t.get("technique", "bounded symbolic execution of the real Go SSA, assertions decided by SMT (z3), counterexamples replayed natively"),
        }
        m["checks"].append(c)
    else:
        m["not_applicable"].append({"property_id": pid, "reason": text.get(pid, {}).get("na_reason", "check not built yet (see DESIGN.md section 9)")})
json.dump(m, open(os.path.join(V, 'MANIFEST.json'), 'w'), indent=1)
print("MANIFEST: %d checks, %d not_applicable" % (len(m["checks"]), len(m["not_applicable"])))
