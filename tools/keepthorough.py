#!/usr/bin/env python3
"""keepthorough.py : copy every evidence/<id>.json whose tier is 'thorough' to evidence/thorough/<id>.json
(the per-property evidence file is rewritten by every run; this keeps the last thorough one beside it)"""
import json, glob, os, shutil
base = os.path.join(os.path.dirname(os.path.abspath(__file__)), "..", "evidence")
os.makedirs(os.path.join(base, "thorough"), exist_ok=True)
for f in sorted(glob.glob(base + "/C*.json")):
    d = json.load(open(f))
    if d.get("tier") == "thorough" and not d.get("violations") and not (d.get("coverage") or {}).get("inconclusive"):
        shutil.copy(f, os.path.join(base, "thorough", os.path.basename(f)))
        print("kept", os.path.basename(f), "wall_s", d.get("wall_s"))
