package main

import (
	"bufio"
	"encoding/json"
	"fmt"
	"go/types"
	"os"
	"path/filepath"
	"runtime"
	"runtime/debug"
	"sort"
	"strings"
	"time"

	"golang.org/x/tools/go/packages"
	"golang.org/x/tools/go/ssa"
	"golang.org/x/tools/go/ssa/ssautil"
)

type ssaFunction = ssa.Function

// repoDir is /repo; GOSYM_REPO redirects the engine to a scratch worktree (used only to try
// seeded changes without touching /repo; registered commands never set it)
var repoDir = func() string {
	if d := os.Getenv("GOSYM_REPO"); d != "" {
		return d
	}
	return "/repo"
}()

var verifDir = func() string {
	if d := os.Getenv("VERIF_DIR"); d != "" {
		return d
	}
	return "/verif"
}()

// overlayMap maps virtual file names inside /repo to harness files under /verif/harness.
func overlayMap(replay bool) map[string]string {
	m := map[string]string{}
	files, _ := filepath.Glob(filepath.Join(verifDir, "harness", "*.go"))
	sort.Strings(files)
	for _, f := range files {
		base := filepath.Base(f)
		m[filepath.Join(repoDir, "zz_verif_"+base)] = f
	}
	return m
}

func loadProgram() (*ssa.Program, *ssa.Package) {
	ov := map[string][]byte{}
	for virt, real := range overlayMap(false) {
		b, err := os.ReadFile(real)
		if err != nil {
			fatal("read harness: %v", err)
		}
		ov[virt] = b
	}
	cfg := &packages.Config{
		Mode: packages.NeedName | packages.NeedFiles | packages.NeedCompiledGoFiles | packages.NeedImports |
			packages.NeedDeps | packages.NeedTypes | packages.NeedSyntax | packages.NeedTypesInfo | packages.NeedTypesSizes,
		Dir:        repoDir,
		BuildFlags: []string{"-tags=verif"},
		Overlay:    ov,
		Env:        append(os.Environ(), "GOFLAGS=-mod=mod", "GOPROXY=off", "GOSUMDB=off", "GOTOOLCHAIN=local"),
	}
	pkgs, err := packages.Load(cfg, ".")
	if err != nil {
		fatal("load: %v", err)
	}
	nerr := 0
	packages.Visit(pkgs, nil, func(p *packages.Package) {
		for _, e := range p.Errors {
			fmt.Fprintf(os.Stderr, "HARNESS-BUILD-FAILED: %v\n", e)
			nerr++
		}
	})
	if nerr > 0 {
		fmt.Println("HARNESS-BUILD-FAILED")
		os.Exit(2)
	}
	prog, spkgs := ssautil.AllPackages(pkgs, ssa.InstantiateGenerics)
	prog.Build()
	return prog, spkgs[0]
}

func fatal(f string, a ...interface{}) {
	fmt.Fprintf(os.Stderr, "gosym: "+f+"\n", a...)
	os.Exit(2)
}

// ---------------------------------------------------------------- running one instance

type InstanceReq struct {
	Harness     string          `json:"harness"`
	Args        []int           `json:"args"`
	MaxSteps    int64           `json:"max_steps"`
	MaxDepth    int             `json:"max_depth"`
	MaxPaths    int             `json:"max_paths"`
	TimeoutMs   int             `json:"timeout_ms"` // per solver query
	Solver      string          `json:"solver"`
	Known       []string        `json:"known,omitempty"`
	Script      []decision      `json:"script,omitempty"` // single path
	Prefix      []decision      `json:"prefix,omitempty"` // explore the subtree below this script
	SliceMs     int64           `json:"slice_ms,omitempty"` // hand the pending subtrees back after this much time
	Level       int             `json:"level,omitempty"`
	SplitAt     int             `json:"split_at,omitempty"` // stop when this many subtrees are pending and return them
	Concrete    []ReplayItem    `json:"concrete,omitempty"`
	KeepGoing   bool            `json:"keep_going"`
	WallLimitMs int64           `json:"wall_limit_ms"`
	Monitor     bool            `json:"monitor"`
}

type worker struct {
	prog    *ssa.Program
	pkg     *ssa.Package
	solvers map[string]*Solver
}

func newInterp(prog *ssa.Program, pkg *ssa.Package, x *Explorer) *interpreter {
	i := &interpreter{
		prog:     prog,
		mainPkg:  pkg,
		globals:  make(map[*ssa.Global]*value),
		x:        x,
		maxSteps: 5_000_000,
		maxDepth: 4000,
		stubs:    map[string]int{},
	}
	if rt := prog.ImportedPackage("runtime"); rt != nil {
		i.runtimeErrorString = rt.Type("errorString").Object().Type()
	} else {
		i.runtimeErrorString = types.Typ[types.String]
	}
	return i
}

func (w *worker) solver(kind string, timeout int) *Solver {
	if s, ok := w.solvers[kind]; ok {
		s.timeout = timeout
		return s
	}
	s := newSolver(kind, timeout)
	w.solvers[kind] = s
	return s
}

func (w *worker) runInstance(req *InstanceReq) (res *InstanceResult) {
	t0 := time.Now()
	res = &InstanceResult{Harness: req.Harness, Args: req.Args, OutOfReach: map[string]int{}, Covers: map[string]int{}, KnownSeen: map[string]*Violation{}, Stubs: map[string]int{}}
	defer func() {
		res.WallMs = time.Since(t0).Milliseconds()
		if p := recover(); p != nil {
			res.EngineError = fmt.Sprintf("%v\n%s", p, debug.Stack())
		}
	}()
	fn := w.pkg.Func(req.Harness)
	if fn == nil {
		res.EngineError = "no such harness function: " + req.Harness
		return
	}
	if req.Solver == "" {
		req.Solver = "z3"
	}
	if req.TimeoutMs == 0 {
		req.TimeoutMs = 20000
	}
	knownEnabled = map[string]bool{}
	for _, k := range req.Known {
		knownEnabled[k] = true
	}
	resetTerms()
	s := w.solver(req.Solver, req.TimeoutMs)
	s.reset()
	s.stats = SolverStats{}
	x := &Explorer{solver: s, inst: res, symFns: map[string]bool{}}
	if fs, ok := w.solvers["cvc5"]; ok && req.Solver != "cvc5" {
		fs.reset()
		fs.stats = SolverStats{}
		x.fpSolver = fs
	}
	defer func() {
		if x.fpSolver != nil {
			w.solvers["cvc5"] = x.fpSolver
			res.Solver.Sat += x.fpSolver.stats.Sat
			res.Solver.Unsat += x.fpSolver.stats.Unsat
			res.Solver.Unknown += x.fpSolver.stats.Unknown
			res.Solver.Time += x.fpSolver.stats.Time
		}
	}()
	x.pending = [][]decision{req.Script}
	if req.Prefix != nil {
		x.pending = [][]decision{req.Prefix}
	}
	args := make([]value, len(req.Args))
	for i, a := range req.Args {
		args[i] = a
	}
	maxPaths := req.MaxPaths
	if maxPaths == 0 {
		maxPaths = 2_000_000
	}
	for len(x.pending) > 0 {
		if res.Paths >= maxPaths {
			res.OutOfReach["path limit reached"]++
			break
		}
		if req.WallLimitMs > 0 && time.Since(t0).Milliseconds() > req.WallLimitMs {
			res.OutOfReach["instance wall-clock limit reached"]++
			break
		}
		var script []decision
		if req.SplitAt > 0 {
			// breadth-first while splitting, so that the pending subtrees are large and shallow
			script = x.pending[0]
			x.pending = x.pending[1:]
		} else {
			script = x.pending[len(x.pending)-1]
			x.pending = x.pending[:len(x.pending)-1]
		}
		w.runPath(x, fn, args, script, req)
		if len(res.Violations) > 0 && !req.KeepGoing {
			break
		}
		if req.Script != nil {
			break
		}
		if (req.SplitAt > 0 && len(x.pending) >= req.SplitAt) ||
			(req.SliceMs > 0 && len(x.pending) > 0 && time.Since(t0).Milliseconds() > req.SliceMs) {
			res.Pending = x.pending
			x.pending = nil
			break
		}
	}
	res.Solver = s.stats
	res.DomDecided = x.domDecided
	res.SymFns = sortedKeys(x.symFns)
	return
}

func (w *worker) runPath(x *Explorer, fn *ssa.Function, args []value, script []decision, req *InstanceReq) {
	res := x.inst
	if len(x.solver.sent) > 4000 {
		// definitions accumulate in the solver (global declarations); start afresh now and then
		st := x.solver.stats
		x.solver.reset()
		x.solver.stats = st
	}
	x.beginPath(script)
	I = newInterp(w.prog, w.pkg, x)
	if req.MaxSteps > 0 {
		I.maxSteps = req.MaxSteps
	}
	if req.MaxDepth > 0 {
		I.maxDepth = req.MaxDepth
	}
	I.monitorShared = req.Monitor
	res.Paths++
	outcome := "completed"
	func() {
		defer func() {
			p := recover()
			if p == nil {
				return
			}
			switch p := p.(type) {
			case pathEnd:
				outcome = "infeasible"
				res.Infeasible++
			case stopPath:
				outcome = "stopped"
				res.Completed++
			case outOfReach:
				outcome = "out-of-reach"
				res.OutOfReach[p.reason]++
			case budgetExceeded:
				outcome = "budget"
				res.Budget++
				x.fail("budget/"+p.what, "budget", "execution budget exhausted ("+p.what+") at "+I.curFrame.pos(), tFalse, I.curFrame.pos())
			case engineError:
				panic(p)
			case panicInfo:
				outcome = "panic"
				res.Panics++
				x.fail("panic@"+p.site, "panic", p.message(), tFalse, p.site)
			default:
				if isEngineControl(p) {
					panic(fmt.Sprintf("engine failure in %s: %v\n%s", posOf(I.curFrame), p, debug.Stack()))
				}
				// target panic raised outside any interpreted frame
				outcome = "panic"
				res.Panics++
				pi := panicInfo{p: p, site: "?"}
				x.fail("panic@?", "panic", pi.message(), tFalse, "?")
			}
		}()
		// package initialisation, then the harness
		if I.monitorShared {
			// every package-level variable of kvql gets its cell before init, so that all of them
			// are known when the shared objects are marked
			for _, m := range w.pkg.Members {
				if g, ok := m.(*ssa.Global); ok {
					if _, have := I.globals[g]; !have {
						cell := zero(mustDeref(g.Type()))
						I.globals[g] = &cell
					}
				}
			}
		}
		if init := w.pkg.Func("init"); init != nil {
			call(nil, 0, init, nil)
		}
		if I.monitorShared {
			markShared()
		}
		call(nil, 0, fn, args)
		res.Completed++
	}()
	res.Steps += I.steps
	for c := range x.covers {
		res.Covers[c]++
	}
	for k, v := range I.stubs {
		res.Stubs[k] += v
	}
	if len(res.Samples) < 3 && (outcome == "completed" || outcome == "panic") && len(x.nd) > 0 {
		res.Samples = append(res.Samples, outcome+": "+x.sampleInputs())
	}
	if outcome == "completed" && len(res.SampleVectors) < 1 && len(x.nd) > 0 && len(res.Violations) == 0 {
		if v := x.sampleVector(); v != nil {
			res.SampleVectors = append(res.SampleVectors, v)
		}
	}
	if debugPaths {
		fmt.Fprintf(os.Stderr, "path %d %s decisions=%d pc=%d steps=%d\n", res.Paths, outcome, len(x.trace), len(x.pc), I.steps)
	}
}

func posOf(fr *frame) string {
	if fr == nil {
		return "?"
	}
	return fr.pos()
}

// ---------------------------------------------------------------- worker process

func workerMain() {
	prog, pkg := loadProgram()
	w := &worker{prog: prog, pkg: pkg, solvers: map[string]*Solver{}}
	in := bufio.NewReaderSize(os.Stdin, 1<<20)
	out := bufio.NewWriter(os.Stdout)
	fmt.Fprintln(out, "READY")
	out.Flush()
	for {
		line, err := in.ReadString('\n')
		if err != nil {
			break
		}
		line = strings.TrimSpace(line)
		if line == "" {
			continue
		}
		var req InstanceReq
		if err := json.Unmarshal([]byte(line), &req); err != nil {
			fatal("bad request: %v", err)
		}
		res := w.runInstance(&req)
		b, _ := json.Marshal(res)
		out.Write(b)
		out.WriteByte('\n')
		out.Flush()
		if res.Paths > 2000 {
			runtime.GC()
		}
	}
	for _, s := range w.solvers {
		s.stop()
	}
}

func main() {
	if len(os.Args) < 2 {
		fatal("usage: gosym check <ID> <quick|thorough> | worker | run <harness> <args...> | count <fn> <tier>")
	}
	debug.SetMaxStack(1 << 30)
	switch os.Args[1] {
	case "worker":
		workerMain()
	case "run":
		runMain(os.Args[2:])
	case "check":
		checkMain(os.Args[2:])
	case "replay":
		replayMain(os.Args[2:])
	case "selftest":
		selftestMain()
	default:
		fatal("unknown command %s", os.Args[1])
	}
}

// runMain runs one harness instance in-process and prints its result (development aid).
func runMain(a []string) {
	if len(a) < 1 {
		fatal("run <harness> <int args...>")
	}
	prog, pkg := loadProgram()
	w := &worker{prog: prog, pkg: pkg, solvers: map[string]*Solver{}}
	req := &InstanceReq{Harness: a[0], KeepGoing: os.Getenv("GOSYM_KEEPGOING") != ""}
	for _, s := range a[1:] {
		var v int
		fmt.Sscanf(s, "%d", &v)
		req.Args = append(req.Args, v)
	}
	if nk := os.Getenv("GOSYM_KNOWN"); nk != "" {
		req.Known = strings.Split(nk, ",")
	}
	if s := os.Getenv("GOSYM_SOLVER"); s != "" {
		req.Solver = s
	}
	res := w.runInstance(req)
	b, _ := json.MarshalIndent(res, "", " ")
	fmt.Println(string(b))
	for _, s := range w.solvers {
		s.stop()
	}
}
