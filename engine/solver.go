package main

// SMT-LIB2 pipe to one long-lived solver process (z3 -in / z3-new -in / cvc5 --incremental).

import (
	"bufio"
	"fmt"
	"io"
	"os"
	"os/exec"
	"strconv"
	"strings"
	"time"
)

type SatResult int

const (
	Unsat SatResult = iota
	Sat
	Unknown
)

func (r SatResult) String() string { return [...]string{"unsat", "sat", "unknown"}[r] }

type SolverStats struct {
	Sat, Unsat, Unknown, Errors int
	Time                        time.Duration
	Restarts                    int
}

type Solver struct {
	kind    string // z3 | z3-new | cvc5
	cmd     *exec.Cmd
	in      io.WriteCloser
	out     *bufio.Reader
	stack   []*Term      // constraints asserted, one per push level
	sent    map[int]bool // term ids defined / vars declared in the solver
	stats   SolverStats
	timeout int // ms per check
	log     io.Writer
}

func newSolver(kind string, timeoutMs int) *Solver {
	s := &Solver{kind: kind, timeout: timeoutMs}
	s.start()
	return s
}

func (s *Solver) start() {
	var cmd *exec.Cmd
	switch s.kind {
	case "z3":
		cmd = exec.Command("z3", "-in")
	case "z3-new":
		cmd = exec.Command("z3-new", "-in")
	case "cvc5":
		cmd = exec.Command("cvc5", "--incremental", "--produce-models", "--tlimit-per="+strconv.Itoa(s.timeout))
	default:
		panic("unknown solver " + s.kind)
	}
	in, err := cmd.StdinPipe()
	if err != nil {
		panic(err)
	}
	out, err := cmd.StdoutPipe()
	if err != nil {
		panic(err)
	}
	cmd.Stderr = os.Stderr
	if err := cmd.Start(); err != nil {
		panic(err)
	}
	s.cmd, s.in, s.out = cmd, in, bufio.NewReaderSize(out, 1<<16)
	s.stack = nil
	s.sent = make(map[int]bool)
	if s.kind == "cvc5" {
		s.send("(set-option :global-declarations true)\n(set-logic ALL)\n")
	} else {
		s.send("(set-option :global-decls true)\n")
		s.send(fmt.Sprintf("(set-option :timeout %d)\n", s.timeout))
	}
	if logSMT != "" && s.log == nil {
		f, err := os.Create(logSMT)
		if err == nil {
			s.log = f
		}
	}
}

var logSMT = os.Getenv("GOSYM_SMTLOG")

func (s *Solver) stop() {
	if s.cmd != nil {
		s.in.Close()
		s.cmd.Process.Kill()
		s.cmd.Wait()
		s.cmd = nil
	}
}

func (s *Solver) restart() {
	s.stop()
	s.stats.Restarts++
	s.start()
}

// reset forgets everything (new instance).
func (s *Solver) reset() {
	if s.cmd == nil || s.kind == "cvc5" {
		s.restart()
		return
	}
	s.stack = nil
	s.sent = make(map[int]bool)
	s.send("(reset)\n(set-option :global-decls true)\n")
	s.send(fmt.Sprintf("(set-option :timeout %d)\n", s.timeout))
}

func (s *Solver) send(txt string) {
	if s.log != nil {
		io.WriteString(s.log, txt)
	}
	if _, err := io.WriteString(s.in, txt); err != nil {
		panic(engineError{"solver pipe: " + err.Error()})
	}
}

// define emits declarations/definitions for t and its subterms not yet known to the solver.
func (s *Solver) define(t *Term, sb *strings.Builder) {
	if t.op == OpConst || s.sent[t.id] {
		return
	}
	// iterative post-order to avoid deep recursion
	type fr struct {
		t *Term
		i int
	}
	st := []fr{{t, 0}}
	for len(st) > 0 {
		top := &st[len(st)-1]
		if top.i < len(top.t.a) {
			c := top.t.a[top.i]
			top.i++
			if c.op != OpConst && !s.sent[c.id] {
				st = append(st, fr{c, 0})
			}
			continue
		}
		x := top.t
		st = st[:len(st)-1]
		if s.sent[x.id] {
			continue
		}
		s.sent[x.id] = true
		if x.op == OpVar {
			fmt.Fprintf(sb, "(declare-const |%s| %s)\n", x.name, x.sort.smt())
		} else {
			fmt.Fprintf(sb, "(define-fun t%d () %s %s)\n", x.id, x.sort.smt(), x.body())
		}
	}
}

// sync brings the solver's assertion stack to exactly pc.
func (s *Solver) sync(pc []*Term) {
	n := 0
	for n < len(s.stack) && n < len(pc) && s.stack[n] == pc[n] {
		n++
	}
	var sb strings.Builder
	if len(s.stack) > n {
		fmt.Fprintf(&sb, "(pop %d)\n", len(s.stack)-n)
		s.stack = s.stack[:n]
	}
	for _, c := range pc[n:] {
		s.define(c, &sb)
		fmt.Fprintf(&sb, "(push 1)\n(assert %s)\n", c.ref())
		s.stack = append(s.stack, c)
	}
	if sb.Len() > 0 {
		s.send(sb.String())
	}
}

func (s *Solver) readLine() string {
	line, err := s.out.ReadString('\n')
	if err != nil {
		panic(engineError{"solver died: " + err.Error()})
	}
	return strings.TrimSpace(line)
}

// check decides pc ∧ extra. When wantModel is non-nil and the result is sat, the values of
// those variables are returned.
func (s *Solver) check(pc []*Term, extra []*Term, wantModel []*Term) (SatResult, map[string]uint64) {
	t0 := time.Now()
	defer func() { s.stats.Time += time.Since(t0) }()
	s.sync(pc)
	var sb strings.Builder
	for _, e := range extra {
		s.define(e, &sb)
	}
	for _, v := range wantModel {
		s.define(v, &sb)
	}
	sb.WriteString("(push 1)\n")
	for _, e := range extra {
		fmt.Fprintf(&sb, "(assert %s)\n", e.ref())
	}
	sb.WriteString("(check-sat)\n")
	s.send(sb.String())
	res := Unknown
	line := s.readLine()
	switch {
	case line == "sat":
		res = Sat
		s.stats.Sat++
	case line == "unsat":
		res = Unsat
		s.stats.Unsat++
	case line == "unknown" || line == "timeout":
		s.stats.Unknown++
	default:
		s.stats.Errors++
		fmt.Fprintf(os.Stderr, "gosym: solver said: %s\n", line)
		// drain nothing further; restart to be safe
		s.restart()
		return Unknown, nil
	}
	var model map[string]uint64
	if res == Sat && wantModel != nil {
		model = make(map[string]uint64)
		for _, v := range wantModel {
			s.send(fmt.Sprintf("(get-value (%s))\n", v.ref()))
			resp := s.readSexp()
			val, ok := parseValue(resp, v.sort)
			if !ok {
				s.stats.Errors++
				fmt.Fprintf(os.Stderr, "gosym: cannot parse model value %q\n", resp)
				s.send("(pop 1)\n")
				return Unknown, nil
			}
			model[v.name] = val
		}
	}
	s.send("(pop 1)\n")
	return res, model
}

func (s *Solver) readSexp() string {
	var sb strings.Builder
	depth := 0
	started := false
	for {
		line := s.readLine()
		sb.WriteString(line)
		sb.WriteString(" ")
		for _, c := range line {
			if c == '(' {
				depth++
				started = true
			} else if c == ')' {
				depth--
			}
		}
		if started && depth <= 0 {
			break
		}
		if !started && line != "" {
			break
		}
	}
	return sb.String()
}

// parseValue extracts the value from "((name value))".
func parseValue(resp string, srt Sort) (uint64, bool) {
	resp = strings.TrimSpace(resp)
	if strings.HasPrefix(resp, "(error") {
		return 0, false
	}
	// find the value token(s) after the name
	i := strings.Index(resp, "((")
	if i < 0 {
		return 0, false
	}
	body := resp[i+2:]
	// skip the name (may be |quoted|)
	body = strings.TrimSpace(body)
	if strings.HasPrefix(body, "|") {
		j := strings.Index(body[1:], "|")
		if j < 0 {
			return 0, false
		}
		body = body[j+2:]
	} else {
		j := strings.IndexAny(body, " \t")
		if j < 0 {
			return 0, false
		}
		body = body[j:]
	}
	body = strings.TrimSpace(body)
	body = strings.TrimSuffix(strings.TrimSpace(body), "))")
	body = strings.TrimSpace(body)
	switch {
	case body == "true":
		return 1, true
	case body == "false":
		return 0, true
	case strings.HasPrefix(body, "#x"):
		v, err := strconv.ParseUint(body[2:], 16, 64)
		return v, err == nil
	case strings.HasPrefix(body, "#b"):
		v, err := strconv.ParseUint(body[2:], 2, 64)
		return v, err == nil
	case strings.HasPrefix(body, "(fp "):
		f := strings.Fields(strings.Trim(body, "()"))
		if len(f) != 4 {
			return 0, false
		}
		var bitsv uint64
		for _, p := range f[1:] {
			var v uint64
			var n int
			var err error
			if strings.HasPrefix(p, "#b") {
				v, err = strconv.ParseUint(p[2:], 2, 64)
				n = len(p) - 2
			} else if strings.HasPrefix(p, "#x") {
				v, err = strconv.ParseUint(p[2:], 16, 64)
				n = 4 * (len(p) - 2)
			} else {
				return 0, false
			}
			if err != nil {
				return 0, false
			}
			bitsv = bitsv<<uint(n) | v
		}
		return bitsv, true
	case strings.HasPrefix(body, "(_ +zero"):
		return 0, true
	case strings.HasPrefix(body, "(_ -zero"):
		return 1 << 63, true
	case strings.HasPrefix(body, "(_ +oo"):
		return 0x7ff0000000000000, true
	case strings.HasPrefix(body, "(_ -oo"):
		return 0xfff0000000000000, true
	case strings.HasPrefix(body, "(_ NaN"):
		return 0x7ff8000000000001, true
	case strings.HasPrefix(body, "(_ bv"):
		f := strings.Fields(strings.Trim(body, "()"))
		v, err := strconv.ParseUint(strings.TrimPrefix(f[1], "bv"), 10, 64)
		return v, err == nil
	}
	return 0, false
}

type engineError struct{ msg string }

func (e engineError) Error() string { return "gosym engine error: " + e.msg }
