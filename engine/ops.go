// Copyright 2013 The Go Authors. All rights reserved.
// Use of this source code is governed by a BSD-style
// license that can be found in the LICENSE file.

package main

import (
	"bytes"
	"fmt"
	"go/constant"
	"go/token"
	"go/types"
	"os"
	"unsafe"

	"golang.org/x/tools/go/ssa"
)

// If the target program panics, the interpreter panics with this type.
type targetPanic struct {
	v value
}

func (p targetPanic) String() string {
	return toString(p.v)
}

// If the target program calls exit, the interpreter panics with this type.
type exitPanic int

// constValue returns the value of the constant with the
// dynamic type tag appropriate for c.Type().
func constValue(c *ssa.Const) value {
	if c.Value == nil {
		return zero(c.Type()) // typed zero
	}
	// c is not a type parameter so it's underlying type is basic.

	if t, ok := c.Type().Underlying().(*types.Basic); ok {
		// TODO(adonovan): eliminate untyped constants from SSA form.
		switch t.Kind() {
		case types.Bool, types.UntypedBool:
			return constant.BoolVal(c.Value)
		case types.Int, types.UntypedInt:
			// Assume sizeof(int) is same on host and target.
			return int(c.Int64())
		case types.Int8:
			return int8(c.Int64())
		case types.Int16:
			return int16(c.Int64())
		case types.Int32, types.UntypedRune:
			return int32(c.Int64())
		case types.Int64:
			return c.Int64()
		case types.Uint:
			// Assume sizeof(uint) is same on host and target.
			return uint(c.Uint64())
		case types.Uint8:
			return uint8(c.Uint64())
		case types.Uint16:
			return uint16(c.Uint64())
		case types.Uint32:
			return uint32(c.Uint64())
		case types.Uint64:
			return c.Uint64()
		case types.Uintptr:
			// Assume sizeof(uintptr) is same on host and target.
			return uintptr(c.Uint64())
		case types.Float32:
			return float32(c.Float64())
		case types.Float64, types.UntypedFloat:
			return c.Float64()
		case types.Complex64:
			return complex64(c.Complex128())
		case types.Complex128, types.UntypedComplex:
			return c.Complex128()
		case types.String, types.UntypedString:
			if c.Value.Kind() == constant.String {
				return constant.StringVal(c.Value)
			}
			return string(rune(c.Int64()))
		}
	}

	panic(fmt.Sprintf("constValue: %s", c))
}

// fitsInt returns true if x fits in type int according to sizes.
func fitsInt(x int64, sizes types.Sizes) bool {
	intSize := sizes.Sizeof(types.Typ[types.Int])
	if intSize < sizes.Sizeof(types.Typ[types.Int64]) {
		maxInt := int64(1)<<((intSize*8)-1) - 1
		minInt := -int64(1) << ((intSize * 8) - 1)
		return minInt <= x && x <= maxInt
	}
	return true
}

// asInt64 converts x, which must be an integer, to an int64.
//
// Callers that need a value directly usable as an int should combine this with fitsInt().
func asInt64(x value) int64 {
	switch x := x.(type) {
	case int:
		return int64(x)
	case int8:
		return int64(x)
	case int16:
		return int64(x)
	case int32:
		return int64(x)
	case int64:
		return x
	case uint:
		return int64(x)
	case uint8:
		return int64(x)
	case uint16:
		return int64(x)
	case uint32:
		return int64(x)
	case uint64:
		return int64(x)
	case uintptr:
		return int64(x)
	}
	panic(fmt.Sprintf("cannot convert %T to int64", x))
}

// asUint64 converts x, which must be an unsigned integer, to a uint64
// suitable for use as a bitwise shift count.
func asUint64(x value) uint64 {
	switch x := x.(type) {
	case uint:
		return uint64(x)
	case uint8:
		return uint64(x)
	case uint16:
		return uint64(x)
	case uint32:
		return uint64(x)
	case uint64:
		return x
	case uintptr:
		return uint64(x)
	}
	panic(fmt.Sprintf("cannot convert %T to uint64", x))
}

// asUnsigned returns the value of x, which must be an integer type, as its equivalent unsigned type,
// and returns true if x is non-negative.
func asUnsigned(x value) (value, bool) {
	switch x := x.(type) {
	case int:
		return uint(x), x >= 0
	case int8:
		return uint8(x), x >= 0
	case int16:
		return uint16(x), x >= 0
	case int32:
		return uint32(x), x >= 0
	case int64:
		return uint64(x), x >= 0
	case uint, uint8, uint32, uint64, uintptr:
		return x, true
	}
	panic(fmt.Sprintf("cannot convert %T to unsigned", x))
}

// zero returns a new "zero" value of the specified type.
func zero(t types.Type) value {
	switch t := t.(type) {
	case *types.Basic:
		if t.Kind() == types.UntypedNil {
			panic("untyped nil has no zero value")
		}
		if t.Info()&types.IsUntyped != 0 {
			// TODO(adonovan): make it an invariant that
			// this is unreachable.  Currently some
			// constants have 'untyped' types when they
			// should be defaulted by the typechecker.
			t = types.Default(t).(*types.Basic)
		}
		switch t.Kind() {
		case types.Bool:
			return false
		case types.Int:
			return int(0)
		case types.Int8:
			return int8(0)
		case types.Int16:
			return int16(0)
		case types.Int32:
			return int32(0)
		case types.Int64:
			return int64(0)
		case types.Uint:
			return uint(0)
		case types.Uint8:
			return uint8(0)
		case types.Uint16:
			return uint16(0)
		case types.Uint32:
			return uint32(0)
		case types.Uint64:
			return uint64(0)
		case types.Uintptr:
			return uintptr(0)
		case types.Float32:
			return float32(0)
		case types.Float64:
			return float64(0)
		case types.Complex64:
			return complex64(0)
		case types.Complex128:
			return complex128(0)
		case types.String:
			return ""
		case types.UnsafePointer:
			return unsafe.Pointer(nil)
		default:
			panic(fmt.Sprint("zero for unexpected type:", t))
		}
	case *types.Pointer:
		return (*value)(nil)
	case *types.Array:
		a := make(array, t.Len())
		for i := range a {
			a[i] = zero(t.Elem())
		}
		return a
	case *types.Named:
		return zero(t.Underlying())
	case *types.Alias:
		return zero(types.Unalias(t))
	case *types.Interface:
		return iface{} // nil type, methodset and value
	case *types.Slice:
		return []value(nil)
	case *types.Struct:
		s := make(structure, t.NumFields())
		for i := range s {
			s[i] = zero(t.Field(i).Type())
		}
		return s
	case *types.Tuple:
		if t.Len() == 1 {
			return zero(t.At(0).Type())
		}
		s := make(tuple, t.Len())
		for i := range s {
			s[i] = zero(t.At(i).Type())
		}
		return s
	case *types.Chan:
		panic(outOfReach{"channel type"})
	case *types.Map:
		return (*omap)(nil)
	case *types.Signature:
		return (*ssa.Function)(nil)
	}
	panic(fmt.Sprint("zero: unexpected ", t))
}

// slice returns x[lo:hi:max].  Any of lo, hi and max may be nil.
func slice(x, lo, hi, max value) value {
	var Len, Cap int
	switch x := x.(type) {
	case string:
		Len = len(x)
		Cap = Len
	case sstr:
		Len = len(x)
		Cap = Len
	case []value:
		Len = len(x)
		Cap = cap(x)
	case *value: // *array
		if x == nil {
			panic(rtPanic("runtime error: invalid memory address or nil pointer dereference"))
		}
		a := (*x).(array)
		Len = len(a)
		Cap = cap(a)
	}

	l := int64(0)
	if lo != nil {
		l = concInt(lo, 0, int64(Cap), "slice low")
	}

	h := int64(Len)
	if hi != nil {
		h = concInt(hi, 0, int64(Cap), "slice high")
	}

	m := int64(Cap)
	if max != nil {
		m = concInt(max, 0, int64(Cap), "slice max")
	}
	if l < 0 || h < l || m < h || m > int64(Cap) {
		panic(rtPanic(fmt.Sprintf("runtime error: slice bounds out of range [%d:%d:%d] with capacity %d", l, h, m, Cap)))
	}

	switch x := x.(type) {
	case string:
		checkLazy(x)
		return x[l:h]
	case sstr:
		return mkStr([]value(x[l:h]))
	case []value:
		return x[l:h:m]
	case *value: // *array
		a := (*x).(array)
		return []value(a)[l:h:m]
	}
	panic(fmt.Sprintf("slice: unexpected X type: %T", x))
}

// lookup returns x[idx] where x is a map or string.
func lookup(instr *ssa.Lookup, x, idx value) value {
	switch x := x.(type) {
	case *omap:
		v, ok := x.lookup(idx)
		if !ok {
			v = zero(instr.X.Type().Underlying().(*types.Map).Elem())
		}
		if instr.CommaOk {
			v = tuple{v, ok}
		}
		return v
	case string:
		checkLazy(x)
		return x[concIndex(idx, len(x))]
	case sstr:
		return x[concIndex(idx, len(x))]
	}
	panic(fmt.Sprintf("unexpected x type in Lookup: %T", x))
}

// binop implements all arithmetic and logical binary operators for
// numeric datatypes and strings.  Both operands must have identical
// dynamic type.
func binop(op token.Token, t types.Type, x, y value) value {
	if isSym(x) || isSym(y) {
		I.x.noteSym()
		return symBinop(op, t, x, y)
	}
	if (op == token.EQL || op == token.NEQ) && (containsSym(x) || containsSym(y)) {
		r := symEquals(t, x, y)
		if op == token.NEQ {
			switch b := r.(type) {
			case bool:
				return !b
			case *Term:
				return boolVal(mkNot(b))
			}
		}
		return r
	}
	if I.lazyUsed && op != token.ADD {
		if xs, ok := x.(string); ok {
			checkLazy(xs)
			if ys, ok := y.(string); ok {
				checkLazy(ys)
			}
		}
	}
	if op == token.QUO || op == token.REM {
		switch d := y.(type) {
		case int, int8, int16, int32, int64, uint, uint8, uint16, uint32, uint64, uintptr:
			if asInt64(d) == 0 {
				panic(rtPanic("runtime error: integer divide by zero"))
			}
		}
	}
	switch op {
	case token.ADD:
		switch x.(type) {
		case int:
			return x.(int) + y.(int)
		case int8:
			return x.(int8) + y.(int8)
		case int16:
			return x.(int16) + y.(int16)
		case int32:
			return x.(int32) + y.(int32)
		case int64:
			return x.(int64) + y.(int64)
		case uint:
			return x.(uint) + y.(uint)
		case uint8:
			return x.(uint8) + y.(uint8)
		case uint16:
			return x.(uint16) + y.(uint16)
		case uint32:
			return x.(uint32) + y.(uint32)
		case uint64:
			return x.(uint64) + y.(uint64)
		case uintptr:
			return x.(uintptr) + y.(uintptr)
		case float32:
			return x.(float32) + y.(float32)
		case float64:
			return x.(float64) + y.(float64)
		case complex64:
			return x.(complex64) + y.(complex64)
		case complex128:
			return x.(complex128) + y.(complex128)
		case string:
			return x.(string) + y.(string)
		}

	case token.SUB:
		switch x.(type) {
		case int:
			return x.(int) - y.(int)
		case int8:
			return x.(int8) - y.(int8)
		case int16:
			return x.(int16) - y.(int16)
		case int32:
			return x.(int32) - y.(int32)
		case int64:
			return x.(int64) - y.(int64)
		case uint:
			return x.(uint) - y.(uint)
		case uint8:
			return x.(uint8) - y.(uint8)
		case uint16:
			return x.(uint16) - y.(uint16)
		case uint32:
			return x.(uint32) - y.(uint32)
		case uint64:
			return x.(uint64) - y.(uint64)
		case uintptr:
			return x.(uintptr) - y.(uintptr)
		case float32:
			return x.(float32) - y.(float32)
		case float64:
			return x.(float64) - y.(float64)
		case complex64:
			return x.(complex64) - y.(complex64)
		case complex128:
			return x.(complex128) - y.(complex128)
		}

	case token.MUL:
		switch x.(type) {
		case int:
			return x.(int) * y.(int)
		case int8:
			return x.(int8) * y.(int8)
		case int16:
			return x.(int16) * y.(int16)
		case int32:
			return x.(int32) * y.(int32)
		case int64:
			return x.(int64) * y.(int64)
		case uint:
			return x.(uint) * y.(uint)
		case uint8:
			return x.(uint8) * y.(uint8)
		case uint16:
			return x.(uint16) * y.(uint16)
		case uint32:
			return x.(uint32) * y.(uint32)
		case uint64:
			return x.(uint64) * y.(uint64)
		case uintptr:
			return x.(uintptr) * y.(uintptr)
		case float32:
			return x.(float32) * y.(float32)
		case float64:
			return x.(float64) * y.(float64)
		case complex64:
			return x.(complex64) * y.(complex64)
		case complex128:
			return x.(complex128) * y.(complex128)
		}

	case token.QUO:
		switch x.(type) {
		case int:
			return x.(int) / y.(int)
		case int8:
			return x.(int8) / y.(int8)
		case int16:
			return x.(int16) / y.(int16)
		case int32:
			return x.(int32) / y.(int32)
		case int64:
			return x.(int64) / y.(int64)
		case uint:
			return x.(uint) / y.(uint)
		case uint8:
			return x.(uint8) / y.(uint8)
		case uint16:
			return x.(uint16) / y.(uint16)
		case uint32:
			return x.(uint32) / y.(uint32)
		case uint64:
			return x.(uint64) / y.(uint64)
		case uintptr:
			return x.(uintptr) / y.(uintptr)
		case float32:
			return x.(float32) / y.(float32)
		case float64:
			return x.(float64) / y.(float64)
		case complex64:
			return x.(complex64) / y.(complex64)
		case complex128:
			return x.(complex128) / y.(complex128)
		}

	case token.REM:
		switch x.(type) {
		case int:
			return x.(int) % y.(int)
		case int8:
			return x.(int8) % y.(int8)
		case int16:
			return x.(int16) % y.(int16)
		case int32:
			return x.(int32) % y.(int32)
		case int64:
			return x.(int64) % y.(int64)
		case uint:
			return x.(uint) % y.(uint)
		case uint8:
			return x.(uint8) % y.(uint8)
		case uint16:
			return x.(uint16) % y.(uint16)
		case uint32:
			return x.(uint32) % y.(uint32)
		case uint64:
			return x.(uint64) % y.(uint64)
		case uintptr:
			return x.(uintptr) % y.(uintptr)
		}

	case token.AND:
		switch x.(type) {
		case int:
			return x.(int) & y.(int)
		case int8:
			return x.(int8) & y.(int8)
		case int16:
			return x.(int16) & y.(int16)
		case int32:
			return x.(int32) & y.(int32)
		case int64:
			return x.(int64) & y.(int64)
		case uint:
			return x.(uint) & y.(uint)
		case uint8:
			return x.(uint8) & y.(uint8)
		case uint16:
			return x.(uint16) & y.(uint16)
		case uint32:
			return x.(uint32) & y.(uint32)
		case uint64:
			return x.(uint64) & y.(uint64)
		case uintptr:
			return x.(uintptr) & y.(uintptr)
		}

	case token.OR:
		switch x.(type) {
		case int:
			return x.(int) | y.(int)
		case int8:
			return x.(int8) | y.(int8)
		case int16:
			return x.(int16) | y.(int16)
		case int32:
			return x.(int32) | y.(int32)
		case int64:
			return x.(int64) | y.(int64)
		case uint:
			return x.(uint) | y.(uint)
		case uint8:
			return x.(uint8) | y.(uint8)
		case uint16:
			return x.(uint16) | y.(uint16)
		case uint32:
			return x.(uint32) | y.(uint32)
		case uint64:
			return x.(uint64) | y.(uint64)
		case uintptr:
			return x.(uintptr) | y.(uintptr)
		}

	case token.XOR:
		switch x.(type) {
		case int:
			return x.(int) ^ y.(int)
		case int8:
			return x.(int8) ^ y.(int8)
		case int16:
			return x.(int16) ^ y.(int16)
		case int32:
			return x.(int32) ^ y.(int32)
		case int64:
			return x.(int64) ^ y.(int64)
		case uint:
			return x.(uint) ^ y.(uint)
		case uint8:
			return x.(uint8) ^ y.(uint8)
		case uint16:
			return x.(uint16) ^ y.(uint16)
		case uint32:
			return x.(uint32) ^ y.(uint32)
		case uint64:
			return x.(uint64) ^ y.(uint64)
		case uintptr:
			return x.(uintptr) ^ y.(uintptr)
		}

	case token.AND_NOT:
		switch x.(type) {
		case int:
			return x.(int) &^ y.(int)
		case int8:
			return x.(int8) &^ y.(int8)
		case int16:
			return x.(int16) &^ y.(int16)
		case int32:
			return x.(int32) &^ y.(int32)
		case int64:
			return x.(int64) &^ y.(int64)
		case uint:
			return x.(uint) &^ y.(uint)
		case uint8:
			return x.(uint8) &^ y.(uint8)
		case uint16:
			return x.(uint16) &^ y.(uint16)
		case uint32:
			return x.(uint32) &^ y.(uint32)
		case uint64:
			return x.(uint64) &^ y.(uint64)
		case uintptr:
			return x.(uintptr) &^ y.(uintptr)
		}

	case token.SHL:
		u, ok := asUnsigned(y)
		if !ok {
			panic("negative shift amount")
		}
		y := asUint64(u)
		switch x.(type) {
		case int:
			return x.(int) << y
		case int8:
			return x.(int8) << y
		case int16:
			return x.(int16) << y
		case int32:
			return x.(int32) << y
		case int64:
			return x.(int64) << y
		case uint:
			return x.(uint) << y
		case uint8:
			return x.(uint8) << y
		case uint16:
			return x.(uint16) << y
		case uint32:
			return x.(uint32) << y
		case uint64:
			return x.(uint64) << y
		case uintptr:
			return x.(uintptr) << y
		}

	case token.SHR:
		u, ok := asUnsigned(y)
		if !ok {
			panic("negative shift amount")
		}
		y := asUint64(u)
		switch x.(type) {
		case int:
			return x.(int) >> y
		case int8:
			return x.(int8) >> y
		case int16:
			return x.(int16) >> y
		case int32:
			return x.(int32) >> y
		case int64:
			return x.(int64) >> y
		case uint:
			return x.(uint) >> y
		case uint8:
			return x.(uint8) >> y
		case uint16:
			return x.(uint16) >> y
		case uint32:
			return x.(uint32) >> y
		case uint64:
			return x.(uint64) >> y
		case uintptr:
			return x.(uintptr) >> y
		}

	case token.LSS:
		switch x.(type) {
		case int:
			return x.(int) < y.(int)
		case int8:
			return x.(int8) < y.(int8)
		case int16:
			return x.(int16) < y.(int16)
		case int32:
			return x.(int32) < y.(int32)
		case int64:
			return x.(int64) < y.(int64)
		case uint:
			return x.(uint) < y.(uint)
		case uint8:
			return x.(uint8) < y.(uint8)
		case uint16:
			return x.(uint16) < y.(uint16)
		case uint32:
			return x.(uint32) < y.(uint32)
		case uint64:
			return x.(uint64) < y.(uint64)
		case uintptr:
			return x.(uintptr) < y.(uintptr)
		case float32:
			return x.(float32) < y.(float32)
		case float64:
			return x.(float64) < y.(float64)
		case string:
			return x.(string) < y.(string)
		}

	case token.LEQ:
		switch x.(type) {
		case int:
			return x.(int) <= y.(int)
		case int8:
			return x.(int8) <= y.(int8)
		case int16:
			return x.(int16) <= y.(int16)
		case int32:
			return x.(int32) <= y.(int32)
		case int64:
			return x.(int64) <= y.(int64)
		case uint:
			return x.(uint) <= y.(uint)
		case uint8:
			return x.(uint8) <= y.(uint8)
		case uint16:
			return x.(uint16) <= y.(uint16)
		case uint32:
			return x.(uint32) <= y.(uint32)
		case uint64:
			return x.(uint64) <= y.(uint64)
		case uintptr:
			return x.(uintptr) <= y.(uintptr)
		case float32:
			return x.(float32) <= y.(float32)
		case float64:
			return x.(float64) <= y.(float64)
		case string:
			return x.(string) <= y.(string)
		}

	case token.EQL:
		return eqnil(t, x, y)

	case token.NEQ:
		return !eqnil(t, x, y)

	case token.GTR:
		switch x.(type) {
		case int:
			return x.(int) > y.(int)
		case int8:
			return x.(int8) > y.(int8)
		case int16:
			return x.(int16) > y.(int16)
		case int32:
			return x.(int32) > y.(int32)
		case int64:
			return x.(int64) > y.(int64)
		case uint:
			return x.(uint) > y.(uint)
		case uint8:
			return x.(uint8) > y.(uint8)
		case uint16:
			return x.(uint16) > y.(uint16)
		case uint32:
			return x.(uint32) > y.(uint32)
		case uint64:
			return x.(uint64) > y.(uint64)
		case uintptr:
			return x.(uintptr) > y.(uintptr)
		case float32:
			return x.(float32) > y.(float32)
		case float64:
			return x.(float64) > y.(float64)
		case string:
			return x.(string) > y.(string)
		}

	case token.GEQ:
		switch x.(type) {
		case int:
			return x.(int) >= y.(int)
		case int8:
			return x.(int8) >= y.(int8)
		case int16:
			return x.(int16) >= y.(int16)
		case int32:
			return x.(int32) >= y.(int32)
		case int64:
			return x.(int64) >= y.(int64)
		case uint:
			return x.(uint) >= y.(uint)
		case uint8:
			return x.(uint8) >= y.(uint8)
		case uint16:
			return x.(uint16) >= y.(uint16)
		case uint32:
			return x.(uint32) >= y.(uint32)
		case uint64:
			return x.(uint64) >= y.(uint64)
		case uintptr:
			return x.(uintptr) >= y.(uintptr)
		case float32:
			return x.(float32) >= y.(float32)
		case float64:
			return x.(float64) >= y.(float64)
		case string:
			return x.(string) >= y.(string)
		}
	}
	panic(fmt.Sprintf("invalid binary op: %T %s %T", x, op, y))
}

// eqnil returns the comparison x == y using the equivalence relation
// appropriate for type t.
// If t is a reference type, at most one of x or y may be a nil value
// of that type.
func eqnil(t types.Type, x, y value) bool {
	switch t.Underlying().(type) {
	case *types.Map, *types.Signature, *types.Slice:
		// Since these types don't support comparison,
		// one of the operands must be a literal nil.
		switch x := x.(type) {
		case *omap:
			return (x != nil) == (y.(*omap) != nil)
		case *ssa.Function:
			switch y := y.(type) {
			case *ssa.Function:
				return (x != nil) == (y != nil)
			case *closure:
				return true
			}
		case *closure:
			return (x != nil) == (y.(*ssa.Function) != nil)
		case []value:
			return (x != nil) == (y.([]value) != nil)
		}
		panic(fmt.Sprintf("eqnil(%s): illegal dynamic type: %T", t, x))
	}

	return equals(t, x, y)
}

func unop(instr *ssa.UnOp, x value) value {
	if t, ok := x.(*Term); ok {
		return symUnop(instr.Op, instr.X.Type(), t)
	}
	switch instr.Op {
	case token.ARROW: // receive
		panic(outOfReach{"channel receive"})
	case token.SUB:
		switch x := x.(type) {
		case int:
			return -x
		case int8:
			return -x
		case int16:
			return -x
		case int32:
			return -x
		case int64:
			return -x
		case uint:
			return -x
		case uint8:
			return -x
		case uint16:
			return -x
		case uint32:
			return -x
		case uint64:
			return -x
		case uintptr:
			return -x
		case float32:
			return -x
		case float64:
			return -x
		case complex64:
			return -x
		case complex128:
			return -x
		}
	case token.MUL:
		p := x.(*value)
		if p == nil {
			panic(rtPanic("runtime error: invalid memory address or nil pointer dereference"))
		}
		return load(mustDeref(instr.X.Type()), p)
	case token.NOT:
		return !x.(bool)
	case token.XOR:
		switch x := x.(type) {
		case int:
			return ^x
		case int8:
			return ^x
		case int16:
			return ^x
		case int32:
			return ^x
		case int64:
			return ^x
		case uint:
			return ^x
		case uint8:
			return ^x
		case uint16:
			return ^x
		case uint32:
			return ^x
		case uint64:
			return ^x
		case uintptr:
			return ^x
		}
	}
	panic(fmt.Sprintf("invalid unary op %s %T", instr.Op, x))
}

// typeAssert checks whether dynamic type of itf is instr.AssertedType.
// It returns the extracted value on success, and panics on failure,
// unless instr.CommaOk, in which case it always returns a "value,ok" tuple.
func typeAssert(instr *ssa.TypeAssert, itf iface) value {
	var v value
	err := ""
	if itf.t == nil {
		err = fmt.Sprintf("interface conversion: interface is nil, not %s", instr.AssertedType)

	} else if idst, ok := instr.AssertedType.Underlying().(*types.Interface); ok {
		v = itf
		err = checkInterface(idst, itf)

	} else if types.Identical(itf.t, instr.AssertedType) {
		v = itf.v // extract value

	} else {
		err = fmt.Sprintf("interface conversion: interface is %s, not %s", itf.t, instr.AssertedType)
	}
	// Note: if instr.Underlying==true ever becomes reachable from interp check that
	// types.Identical(itf.t.Underlying(), instr.AssertedType)

	if err != "" {
		if !instr.CommaOk {
			panic(rtPanic(err))
		}
		return tuple{zero(instr.AssertedType), false}
	}
	if instr.CommaOk {
		return tuple{v, true}
	}
	return v
}

// This variable is no longer used but remains to prevent build breakage.


// callBuiltin interprets a call to builtin fn with arguments args,
// returning its result.
func callBuiltin(caller *frame, callpos token.Pos, fn *ssa.Builtin, args []value) value {
	switch fn.Name() {
	case "append":
		if len(args) == 1 {
			return args[0]
		}
		switch s := args[1].(type) {
		case string, sstr:
			// append([]byte, ...string) []byte
			arg0 := args[0].([]value)
			return append(arg0, strBytes(s)...)
		}
		// append([]T, ...[]T) []T
		if I.monitorShared {
			noteAppend(caller, args[0].([]value), len(args[1].([]value)))
		}
		return append(args[0].([]value), args[1].([]value)...)

	case "copy": // copy([]T, []T) int or copy([]byte, string) int
		src := args[1]
		switch s := src.(type) {
		case string, sstr:
			src = strBytes(s)
		}
		if I.monitorShared {
			noteCopy(caller, args[0].([]value), len(src.([]value)))
		}
		return copy(args[0].([]value), src.([]value))

	case "close": // close(chan T)
		panic(outOfReach{"close(chan)"})

	case "delete": // delete(map[K]value, K)
		m := args[0].(*omap)
		if I.monitorShared && I.sharedMaps[m] {
			I.sharedWrites = append(I.sharedWrites, "map delete at "+caller.pos())
		}
		m.delete(args[1])
		return nil

	case "clear":
		switch m := args[0].(type) {
		case *omap:
			if I.monitorShared && I.sharedMaps[m] {
				I.sharedWrites = append(I.sharedWrites, "map clear at "+caller.pos())
			}
			m.clear()
		case []value:
			et := fn.Type().(*types.Signature).Params().At(0).Type().Underlying().(*types.Slice).Elem()
			for i := range m {
				m[i] = zero(et)
			}
		default:
			panic(fmt.Sprintf("clear: illegal operand: %T", m))
		}
		return nil

	case "print", "println": // print(any, ...)
		ln := fn.Name() == "println"
		var buf bytes.Buffer
		for i, arg := range args {
			if i > 0 && ln {
				buf.WriteRune(' ')
			}
			buf.WriteString(toString(arg))
		}
		if ln {
			buf.WriteRune('\n')
		}
		os.Stderr.Write(buf.Bytes())
		return nil

	case "len":
		switch x := args[0].(type) {
		case string:
			checkLazy(x)
			return len(x)
		case array:
			return len(x)
		case *value:
			return len((*x).(array))
		case sstr:
			return len(x)
		case []value:
			return len(x)
		case *omap:
			return x.len()
		default:
			panic(fmt.Sprintf("len: illegal operand: %T", x))
		}

	case "cap":
		switch x := args[0].(type) {
		case array:
			return cap(x)
		case *value:
			return cap((*x).(array))
		case []value:
			return cap(x)
		default:
			panic(fmt.Sprintf("cap: illegal operand: %T", x))
		}

	case "min":
		return foldLeft(min, args)
	case "max":
		return foldLeft(max, args)

	case "real":
		switch c := args[0].(type) {
		case complex64:
			return real(c)
		case complex128:
			return real(c)
		default:
			panic(fmt.Sprintf("real: illegal operand: %T", c))
		}

	case "imag":
		switch c := args[0].(type) {
		case complex64:
			return imag(c)
		case complex128:
			return imag(c)
		default:
			panic(fmt.Sprintf("imag: illegal operand: %T", c))
		}

	case "complex":
		switch f := args[0].(type) {
		case float32:
			return complex(f, args[1].(float32))
		case float64:
			return complex(f, args[1].(float64))
		default:
			panic(fmt.Sprintf("complex: illegal operand: %T", f))
		}

	case "panic":
		// ssa.Panic handles most cases; this is only for "go
		// panic" or "defer panic".
		panic(targetPanic{args[0]})

	case "recover":
		return doRecover(caller)

	case "ssa:wrapnilchk":
		recv := args[0]
		if recv.(*value) == nil {
			recvType := args[1]
			methodName := args[2]
			panic(rtPanic(fmt.Sprintf("value method (%s).%s called using nil *%s pointer",
				recvType, methodName, recvType)))
		}
		return recv

	case "ssa:deferstack":
		return &caller.defers
	}

	panic("unknown built-in: " + fn.Name())
}

func rangeIter(x value, t types.Type) iter {
	switch x := x.(type) {
	case *omap:
		return newOmapIter(x)
	case string:
		return &stringIter{s: strBytes(x)}
	case sstr:
		return &stringIter{s: []value(x)}
	}
	panic(fmt.Sprintf("cannot range over %T", x))
}

// widen widens a basic typed value x to the widest type of its
// category, one of:
//
//	bool, int64, uint64, float64, complex128, string.
//
// This is inefficient but reduces the size of the cross-product of
// cases we have to consider.
func widen(x value) value {
	switch y := x.(type) {
	case bool, int64, uint64, float64, complex128, string, unsafe.Pointer:
		return x
	case int:
		return int64(y)
	case int8:
		return int64(y)
	case int16:
		return int64(y)
	case int32:
		return int64(y)
	case uint:
		return uint64(y)
	case uint8:
		return uint64(y)
	case uint16:
		return uint64(y)
	case uint32:
		return uint64(y)
	case uintptr:
		return uint64(y)
	case float32:
		return float64(y)
	case complex64:
		return complex128(y)
	}
	panic(fmt.Sprintf("cannot widen %T", x))
}

// conv converts the value x of type t_src to type t_dst and returns
// the result.
// Possible cases are described with the ssa.Convert operator.
func conv(t_dst, t_src types.Type, x value) value {
	ut_src := t_src.Underlying()
	ut_dst := t_dst.Underlying()

	// Destination type is not an "untyped" type.
	if b, ok := ut_dst.(*types.Basic); ok && b.Info()&types.IsUntyped != 0 {
		panic("oops: conversion to 'untyped' type: " + b.String())
	}

	// Nor is it an interface type.
	if _, ok := ut_dst.(*types.Interface); ok {
		if _, ok := ut_src.(*types.Interface); ok {
			panic("oops: Convert should be ChangeInterface")
		} else {
			panic("oops: Convert should be MakeInterface")
		}
	}

	// Remaining conversions:
	//    + untyped string/number/bool constant to a specific
	//      representation.
	//    + conversions between non-complex numeric types.
	//    + conversions between complex numeric types.
	//    + integer/[]byte/[]rune -> string.
	//    + string -> []byte/[]rune.
	//
	// All are treated the same: first we extract the value to the
	// widest representation (int64, uint64, float64, complex128,
	// or string), then we convert it to the desired type.

	if t, ok := x.(*Term); ok {
		I.x.noteSym()
		return symConv(t_dst, t_src, t)
	}
	if ss, ok := x.(sstr); ok {
		switch ut_dst := ut_dst.(type) {
		case *types.Slice:
			if ut_dst.Elem().Underlying().(*types.Basic).Kind() == types.Byte {
				// spare capacity as the Go runtime's size classes leave it: code that appends
				// in place to a converted string shares its buffer between rows natively
				res := make([]value, len(ss), byteSliceCap(len(ss)))
				copy(res, ss)
				return res
			}
			panic(outOfReach{"[]rune(symbolic string)"})
		case *types.Basic:
			if ut_dst.Kind() == types.String {
				return ss
			}
		}
		panic(fmt.Sprintf("unsupported conversion of symbolic string to %s", t_dst))
	}

	switch ut_src := ut_src.(type) {
	case *types.Pointer:
		switch ut_dst := ut_dst.(type) {
		case *types.Basic:
			// *value to unsafe.Pointer?
			if ut_dst.Kind() == types.UnsafePointer {
				return unsafe.Pointer(x.(*value))
			}
		}

	case *types.Slice:
		// []byte or []rune -> string
		switch ut_src.Elem().Underlying().(*types.Basic).Kind() {
		case types.Byte:
			return mkStr(x.([]value))

		case types.Rune:
			x := x.([]value)
			r := make([]rune, 0, len(x))
			for i := range x {
				r = append(r, x[i].(rune))
			}
			return string(r)
		}

	case *types.Basic:
		x = widen(x)

		// integer -> string?
		if ut_src.Info()&types.IsInteger != 0 {
			if ut_dst, ok := ut_dst.(*types.Basic); ok && ut_dst.Kind() == types.String {
				return fmt.Sprintf("%c", x)
			}
		}

		// string -> []rune, []byte or string?
		if s, ok := x.(string); ok {
			switch ut_dst := ut_dst.(type) {
			case *types.Slice:
				checkLazy(s)
				res := make([]value, 0, byteSliceCap(len(s)))
				switch ut_dst.Elem().Underlying().(*types.Basic).Kind() {
				case types.Rune:
					for _, r := range []rune(s) {
						res = append(res, r)
					}
					return res
				case types.Byte:
					for _, b := range []byte(s) {
						res = append(res, b)
					}
					return res
				}
			case *types.Basic:
				if ut_dst.Kind() == types.String {
					return x.(string)
				}
			}
			break // fail: no other conversions for string
		}

		// unsafe.Pointer -> *value
		if ut_src.Kind() == types.UnsafePointer {
			// TODO(adonovan): this is wrong and cannot
			// really be fixed with the current design.
			//
			// return (*value)(x.(unsafe.Pointer))
			// creates a new pointer of a different
			// type but the underlying interface value
			// knows its "true" type and so cannot be
			// meaningfully used through the new pointer.
			//
			// To make this work, the interpreter needs to
			// simulate the memory layout of a real
			// compiled implementation.
			//
			// To at least preserve type-safety, we'll
			// just return the zero value of the
			// destination type.
			return zero(t_dst)
		}

		// Conversions between complex numeric types?
		if ut_src.Info()&types.IsComplex != 0 {
			switch ut_dst.(*types.Basic).Kind() {
			case types.Complex64:
				return complex64(x.(complex128))
			case types.Complex128:
				return x.(complex128)
			}
			break // fail: no other conversions for complex
		}

		// Conversions between non-complex numeric types?
		if ut_src.Info()&types.IsNumeric != 0 {
			kind := ut_dst.(*types.Basic).Kind()
			switch x := x.(type) {
			case int64: // signed integer -> numeric?
				switch kind {
				case types.Int:
					return int(x)
				case types.Int8:
					return int8(x)
				case types.Int16:
					return int16(x)
				case types.Int32:
					return int32(x)
				case types.Int64:
					return int64(x)
				case types.Uint:
					return uint(x)
				case types.Uint8:
					return uint8(x)
				case types.Uint16:
					return uint16(x)
				case types.Uint32:
					return uint32(x)
				case types.Uint64:
					return uint64(x)
				case types.Uintptr:
					return uintptr(x)
				case types.Float32:
					return float32(x)
				case types.Float64:
					return float64(x)
				}

			case uint64: // unsigned integer -> numeric?
				switch kind {
				case types.Int:
					return int(x)
				case types.Int8:
					return int8(x)
				case types.Int16:
					return int16(x)
				case types.Int32:
					return int32(x)
				case types.Int64:
					return int64(x)
				case types.Uint:
					return uint(x)
				case types.Uint8:
					return uint8(x)
				case types.Uint16:
					return uint16(x)
				case types.Uint32:
					return uint32(x)
				case types.Uint64:
					return uint64(x)
				case types.Uintptr:
					return uintptr(x)
				case types.Float32:
					return float32(x)
				case types.Float64:
					return float64(x)
				}

			case float64: // floating point -> numeric?
				switch kind {
				case types.Int:
					return int(x)
				case types.Int8:
					return int8(x)
				case types.Int16:
					return int16(x)
				case types.Int32:
					return int32(x)
				case types.Int64:
					return int64(x)
				case types.Uint:
					return uint(x)
				case types.Uint8:
					return uint8(x)
				case types.Uint16:
					return uint16(x)
				case types.Uint32:
					return uint32(x)
				case types.Uint64:
					return uint64(x)
				case types.Uintptr:
					return uintptr(x)
				case types.Float32:
					return float32(x)
				case types.Float64:
					return float64(x)
				}
			}
		}
	}

	panic(fmt.Sprintf("unsupported conversion: %s  -> %s, dynamic type %T", t_src, t_dst, x))
}

// sliceToArrayPointer converts the value x of type slice to type t_dst
// a pointer to array and returns the result.
func sliceToArrayPointer(t_dst, t_src types.Type, x value) value {
	if _, ok := t_src.Underlying().(*types.Slice); ok {
		if ptr, ok := t_dst.Underlying().(*types.Pointer); ok {
			if arr, ok := ptr.Elem().Underlying().(*types.Array); ok {
				x := x.([]value)
				if arr.Len() > int64(len(x)) {
					panic("array length is greater than slice length")
				}
				if x == nil {
					return zero(t_dst)
				}
				v := value(array(x[:arr.Len()]))
				return &v
			}
		}
	}

	panic(fmt.Sprintf("unsupported conversion: %s  -> %s, dynamic type %T", t_src, t_dst, x))
}

// checkInterface checks that the method set of x implements the
// interface itype.
// On success it returns "", on failure, an error message.
func checkInterface(itype *types.Interface, x iface) string {
	if meth, _ := types.MissingMethod(x.t, itype, true); meth != nil {
		return fmt.Sprintf("interface conversion: %v is not %v: missing method %s",
			x.t, itype, meth.Name())
	}
	return "" // ok
}

func foldLeft(op func(value, value) value, args []value) value {
	x := args[0]
	for _, arg := range args[1:] {
		x = op(x, arg)
	}
	return x
}

func min(x, y value) value {
	if isSym(x) || isSym(y) {
		return symMinMax(x, y, true)
	}
	switch x := x.(type) {
	case float32:
		return fmin(x, y.(float32))
	case float64:
		return fmin(x, y.(float64))
	}

	// return (y < x) ? y : x
	if binop(token.LSS, nil, y, x).(bool) {
		return y
	}
	return x
}

func max(x, y value) value {
	if isSym(x) || isSym(y) {
		return symMinMax(x, y, false)
	}
	switch x := x.(type) {
	case float32:
		return fmax(x, y.(float32))
	case float64:
		return fmax(x, y.(float64))
	}

	// return (y > x) ? y : x
	if binop(token.GTR, nil, y, x).(bool) {
		return y
	}
	return x
}

// copied from $GOROOT/src/runtime/minmax.go

type floaty interface{ ~float32 | ~float64 }

func fmin[F floaty](x, y F) F {
	if y != y || y < x {
		return y
	}
	if x != x || x < y || x != 0 {
		return x
	}
	// x and y are both ±0
	// if either is -0, return -0; else return +0
	return forbits(x, y)
}

func fmax[F floaty](x, y F) F {
	if y != y || y > x {
		return y
	}
	if x != x || x > y || x != 0 {
		return x
	}
	// x and y are both ±0
	// if both are -0, return -0; else return +0
	return fandbits(x, y)
}

func forbits[F floaty](x, y F) F {
	switch unsafe.Sizeof(x) {
	case 4:
		*(*uint32)(unsafe.Pointer(&x)) |= *(*uint32)(unsafe.Pointer(&y))
	case 8:
		*(*uint64)(unsafe.Pointer(&x)) |= *(*uint64)(unsafe.Pointer(&y))
	}
	return x
}

func fandbits[F floaty](x, y F) F {
	switch unsafe.Sizeof(x) {
	case 4:
		*(*uint32)(unsafe.Pointer(&x)) &= *(*uint32)(unsafe.Pointer(&y))
	case 8:
		*(*uint64)(unsafe.Pointer(&x)) &= *(*uint64)(unsafe.Pointer(&y))
	}
	return x
}

// byteSliceCap: capacity the Go runtime gives a []byte converted from a string of n bytes
// (malloc size classes; the exact value is unspecified, what matters is that it exceeds n).
func byteSliceCap(n int) int {
	if n == 0 {
		return 0
	}
	for _, c := range []int{8, 16, 24, 32, 48, 64, 80, 96, 112, 128} {
		if n <= c {
			return c
		}
	}
	return (n + 127) / 128 * 128
}
