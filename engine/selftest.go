package main

import (
	"bytes"
	"fmt"
	"os"
	"strconv"
	"strings"
)

// selftestMain validates the solver pipe and the closed-form library models against the native
// functions, exhaustively for byte strings of length <= 2 over a 6-byte alphabet (and the integer
// model on its boundary shapes). A mismatch aborts: nothing the engine says could be trusted.
func selftestMain() {
	bad := 0
	fail := func(f string, a ...interface{}) {
		fmt.Printf("selftest: "+f+"\n", a...)
		bad++
	}
	s := newSolver("z3", 5000)
	x := mkVar("selftest_x", SBV8, nil)
	if r, _ := s.check(nil, []*Term{mkCmp(OpUlt, x, mkConst(SBV8, 3))}, nil); r != Sat {
		fail("solver did not answer sat")
	}
	if r, _ := s.check(nil, []*Term{mkCmp(OpUlt, x, mkConst(SBV8, 0))}, nil); r != Unsat {
		fail("solver did not answer unsat")
	}
	// a model must satisfy what was asked
	y := mkVar("selftest_y", SBV64, nil)
	q := mkAnd(mkCmp(OpSlt, mkConst(SBV64, 40), y), mkEq(mkBin(OpMul, y, mkConst(SBV64, 3)), mkConst(SBV64, 126)))
	if r, m := s.check(nil, []*Term{q}, []*Term{y}); r != Sat || m[y.name] != 42 {
		fail("solver model wrong: %v %v", r, m)
	}
	s.stop()

	alpha := []byte{0, ' ', 'A', 'a', '1', 0xff}
	var strs [][]byte
	strs = append(strs, []byte{})
	for _, a := range alpha {
		strs = append(strs, []byte{a})
		for _, b := range alpha {
			strs = append(strs, []byte{a, b})
		}
	}
	// symbolic operands of each length, evaluated under every assignment
	symOf := func(tag string, n int) ([]value, []*Term) {
		vs := make([]value, n)
		ts := make([]*Term, n)
		for i := range vs {
			t := mkVar(fmt.Sprintf("st_%s%d_%d", tag, n, i), SBV8, nil)
			vs[i], ts[i] = t, t
		}
		return vs, ts
	}
	evalT := func(t *Term, env map[string]uint64) uint64 { return t.eval(env, map[int]uint64{}) }
	n := 0
	for la := 0; la <= 2; la++ {
		for lb := 0; lb <= 2; lb++ {
			av, at := symOf("a", la)
			bv, bt := symOf("b", lb)
			cmp := bytesCmpTerm(av, bv)
			eq := bytesEqTerm(av, bv)
			pre := bytesHasPrefixTerm(av, bv)
			for _, a := range strs {
				if len(a) != la {
					continue
				}
				for _, b := range strs {
					if len(b) != lb {
						continue
					}
					env := map[string]uint64{}
					for i, t := range at {
						env[t.name] = uint64(a[i])
					}
					for i, t := range bt {
						env[t.name] = uint64(b[i])
					}
					n++
					if got, want := int64(evalT(cmp, env)), int64(bytes.Compare(a, b)); got != want {
						fail("bytes.Compare(%q,%q): model %d native %d", a, b, got, want)
					}
					if got, want := evalT(eq, env) != 0, bytes.Equal(a, b); got != want {
						fail("bytes.Equal(%q,%q): model %v native %v", a, b, got, want)
					}
					if got, want := evalT(pre, env) != 0, bytes.HasPrefix(a, b); got != want {
						fail("bytes.HasPrefix(%q,%q): model %v native %v", a, b, got, want)
					}
				}
			}
		}
	}
	// decimal model: digitsOnly + Horner value against strconv.ParseInt
	digs := []byte{'0', '1', '9', '+', '-', 'a'}
	for l := 1; l <= 3; l++ {
		dv, dt := symOf("d", l)
		ok := digitsOnly(dv)
		val := hornerDigits(dv)
		idx := make([]int, l)
		for {
			buf := make([]byte, l)
			env := map[string]uint64{}
			for i := range buf {
				buf[i] = digs[idx[i]]
				env[dt[i].name] = uint64(buf[i])
			}
			n++
			allDigits := true
			for _, c := range buf {
				if c < '0' || c > '9' {
					allDigits = false
				}
			}
			if got := evalT(ok, env) != 0; got != allDigits {
				fail("digitsOnly(%q): model %v", buf, got)
			}
			if allDigits {
				want, _ := strconv.ParseInt(string(buf), 10, 64)
				if got := int64(evalT(val, env)); got != want {
					fail("ParseInt(%q): model %d native %d", buf, got, want)
				}
			}
			k := 0
			for k < l {
				idx[k]++
				if idx[k] < len(digs) {
					break
				}
				idx[k] = 0
				k++
			}
			if k == l {
				break
			}
		}
	}
	// ASCII case mapping image used by caseMap's single-image shortcut
	for c := 0; c < 128; c++ {
		lo := strings.ToLower(string(rune(c)))
		up := strings.ToUpper(string(rune(c)))
		if len(lo) != 1 || len(up) != 1 {
			fail("case mapping of ASCII %d is not a single byte", c)
		}
	}
	// bit-vector evaluator vs Go semantics on boundary values
	vals := []uint64{0, 1, 2, 0x7f, 0x80, 0xff, 0x7fffffffffffffff, 0x8000000000000000, ^uint64(0)}
	for _, a := range vals {
		for _, b := range vals {
			if b != 0 {
				if got, _ := evalBin(OpSDiv, SBV64, a, b); int64(a) != -1<<63 || int64(b) != -1 {
					if int64(got) != int64(a)/int64(b) {
						fail("sdiv %d %d", int64(a), int64(b))
					}
				}
				if got, _ := evalBin(OpSRem, SBV64, a, b); int64(b) != -1 {
					if int64(got) != int64(a)%int64(b) {
						fail("srem %d %d", int64(a), int64(b))
					}
				}
			}
			if got, _ := evalBin(OpMul, SBV64, a, b); got != a*b {
				fail("mul")
			}
			if evalCmp(OpSlt, SBV64, a, b) != (int64(a) < int64(b)) {
				fail("slt")
			}
			n++
		}
	}
	if bad > 0 {
		os.Exit(2)
	}
	fmt.Printf("gosym selftest ok (%d model evaluations compared with native functions)\n", n)
}
