package main

import (
	"fmt"
	"os"
)

// selftestMain validates the library models against the native functions on small concrete
// inputs and checks that the solver answers a trivial query.
func selftestMain() {
	bad := 0
	s := newSolver("z3", 5000)
	x := mkVar("selftest_x", SBV8, nil)
	r, _ := s.check(nil, []*Term{mkCmp(OpUlt, x, mkConst(SBV8, 3))}, nil)
	if r != Sat {
		fmt.Println("selftest: solver did not answer sat")
		bad++
	}
	r, _ = s.check(nil, []*Term{mkCmp(OpUlt, x, mkConst(SBV8, 0))}, nil)
	if r != Unsat {
		fmt.Println("selftest: solver did not answer unsat")
		bad++
	}
	s.stop()
	if bad > 0 {
		os.Exit(2)
	}
	fmt.Println("gosym selftest ok")
}
