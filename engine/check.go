package main

// Master process: builds the instance list of a property, feeds worker processes, replays
// counterexamples natively, prints the verdict and writes the evidence file.

import (
	"bufio"
	"bytes"
	"crypto/sha1"
	"encoding/json"
	"fmt"
	"io"
	"os"
	"os/exec"
	"path/filepath"
	"regexp"
	"sort"
	"strconv"
	"strings"
	"sync"
	"time"
)

type HarnessSpec struct {
	H         string            `json:"h"`
	Args      []json.RawMessage `json:"args"` // each: [ints] | "fn:<name>" | "seed"
	MaxSteps  int64             `json:"max_steps,omitempty"`
	MaxDepth  int               `json:"max_depth,omitempty"`
	TimeoutMs int               `json:"timeout_ms,omitempty"`
	Solver    string            `json:"solver,omitempty"`
	MustCover []string          `json:"must_cover,omitempty"`
	Monitor   bool              `json:"monitor,omitempty"`
	WallMs    int64             `json:"wall_ms,omitempty"`
	Note      string            `json:"note,omitempty"`
	Split     int               `json:"split,omitempty"`
}

type PropertySpec struct {
	Quick       []HarnessSpec `json:"quick"`
	Thorough    []HarnessSpec `json:"thorough"`
	Bounds      map[string]string `json:"bounds,omitempty"`
	Assumptions []string      `json:"assumptions,omitempty"`
	Level       string        `json:"level,omitempty"`
}

type KnownFinding struct {
	ID       string `json:"id"`
	Property string `json:"property"`
	Status   string `json:"status"` // known | fixed
	What     string `json:"what"`
	Commit   string `json:"commit,omitempty"`
	Witness  string `json:"witness,omitempty"`
}

type replayCase struct {
	Harness string       `json:"harness"`
	Args    []int        `json:"args"`
	Vector  []ReplayItem `json:"vector"`
	Expect  string       `json:"expect"`
	// bookkeeping
	viol  *Violation
	known string
	sample bool
}

func loadJSON(path string, into interface{}) {
	b, err := os.ReadFile(path)
	if err != nil {
		fatal("%v", err)
	}
	if err := json.Unmarshal(b, into); err != nil {
		fatal("%s: %v", path, err)
	}
}

func envInt(name string, def int) int {
	if s := os.Getenv(name); s != "" {
		if v, err := strconv.Atoi(s); err == nil {
			return v
		}
	}
	return def
}

type workerProc struct {
	cmd *exec.Cmd
	in  io.WriteCloser
	out *bufio.Reader
}

func startWorker() (*workerProc, error) {
	self, _ := os.Executable()
	cmd := exec.Command(self, "worker")
	cmd.Stderr = os.Stderr
	in, _ := cmd.StdinPipe()
	out, _ := cmd.StdoutPipe()
	if err := cmd.Start(); err != nil {
		return nil, err
	}
	w := &workerProc{cmd: cmd, in: in, out: bufio.NewReaderSize(out, 1<<20)}
	line, err := w.out.ReadString('\n')
	if err != nil || strings.TrimSpace(line) != "READY" {
		// build failure inside the worker: propagate its output
		rest, _ := io.ReadAll(w.out)
		cmd.Wait()
		return nil, fmt.Errorf("worker failed to start: %s%s", line, rest)
	}
	return w, nil
}

func (w *workerProc) run(req *InstanceReq) (*InstanceResult, error) {
	b, _ := json.Marshal(req)
	if _, err := w.in.Write(append(b, '\n')); err != nil {
		return nil, err
	}
	line, err := w.out.ReadBytes('\n')
	if err != nil {
		return nil, fmt.Errorf("worker died: %v", err)
	}
	var res InstanceResult
	if err := json.Unmarshal(line, &res); err != nil {
		return nil, err
	}
	return &res, nil
}

func (w *workerProc) stop() {
	w.in.Close()
	w.cmd.Wait()
}

func checkMain(a []string) {
	if len(a) < 2 {
		fatal("check <ID> <quick|thorough>")
	}
	id, tier := a[0], a[1]
	if t := os.Getenv("VERIF_TIER"); t == "quick" || t == "thorough" {
		tier = t
	}
	seed := envInt("VERIF_SEED", 1)
	t0 := time.Now()
	var specs map[string]*PropertySpec
	loadJSON(filepath.Join(verifDir, "checks.json"), &specs)
	spec := specs[id]
	if spec == nil {
		fatal("no check registered for %s", id)
	}
	var kfs []KnownFinding
	loadJSON(filepath.Join(verifDir, "known_findings.json"), &kfs)
	var enabledKnown []string
	kfByID := map[string]*KnownFinding{}
	for i := range kfs {
		k := &kfs[i]
		if k.Property == id && k.Status == "known" {
			enabledKnown = append(enabledKnown, k.ID)
			kfByID[k.ID] = k
		}
	}
	hs := spec.Quick
	if tier == "thorough" && len(spec.Thorough) > 0 {
		hs = spec.Thorough
	}
	tierN := 0
	if tier == "thorough" {
		tierN = 1
	}

	// evaluate count functions with a local concrete interpreter
	var prog struct {
		loaded bool
		w      *worker
	}
	countFn := func(name string) int {
		if !prog.loaded {
			p, pkg := loadProgram()
			prog.w = &worker{prog: p, pkg: pkg, solvers: map[string]*Solver{}}
			prog.loaded = true
		}
		return prog.w.evalCount(name, tierN, seed)
	}
	var reqs []*InstanceReq
	mustCover := map[string][]string{}
	for _, h := range hs {
		var dims [][]int
		for _, raw := range h.Args {
			var ints []int
			var s string
			if json.Unmarshal(raw, &ints) == nil {
				dims = append(dims, ints)
			} else if json.Unmarshal(raw, &s) == nil {
				switch {
				case s == "seed":
					dims = append(dims, []int{seed})
				case strings.HasPrefix(s, "fn:"):
					n := countFn(s[3:])
					r := make([]int, n)
					for i := range r {
						r[i] = i
					}
					dims = append(dims, r)
				default:
					fatal("bad arg spec %q", s)
				}
			} else {
				fatal("bad arg spec %s", raw)
			}
		}
		var rec func(i int, cur []int)
		rec = func(i int, cur []int) {
			if i == len(dims) {
				reqs = append(reqs, &InstanceReq{Harness: h.H, Args: append([]int(nil), cur...), MaxSteps: h.MaxSteps,
					MaxDepth: h.MaxDepth, TimeoutMs: h.TimeoutMs, Solver: h.Solver, Known: enabledKnown, Monitor: h.Monitor, WallLimitMs: h.WallMs, SplitAt: h.Split, SliceMs: int64(envInt("GOSYM_SLICE_MS", 3000))})
				return
			}
			for _, v := range dims[i] {
				rec(i+1, append(cur, v))
			}
		}
		rec(0, nil)
		mustCover[h.H] = append(mustCover[h.H], h.MustCover...)
	}
	if prog.loaded {
		for _, s := range prog.w.solvers {
			s.stop()
		}
		prog.w = nil
	}
	if len(reqs) == 0 {
		fatal("no instances for %s %s", id, tier)
	}

	nw := envInt("GOSYM_WORKERS", 16)
	anySplit := false
	for _, r := range reqs {
		if r.SplitAt > 0 {
			anySplit = true
		}
	}
	if nw > len(reqs) && !anySplit {
		nw = len(reqs)
	}
	fmt.Printf("gosym: property %s tier %s seed %d: %d instances of %d harnesses on %d workers\n", id, tier, seed, len(reqs), len(hs), nw)

	var mu sync.Mutex
	queue := append([]*InstanceReq(nil), reqs...)
	inflight := 0
	cond := sync.NewCond(&mu)
	total := len(reqs)
	nextJob := func() *InstanceReq {
		mu.Lock()
		defer mu.Unlock()
		for {
			if len(queue) > 0 {
				r := queue[0]
				queue = queue[1:]
				inflight++
				return r
			}
			if inflight == 0 {
				return nil
			}
			cond.Wait()
		}
	}
	var results []*InstanceResult
	var startErr error
	stop := false
	var wg sync.WaitGroup
	for i := 0; i < nw; i++ {
		wg.Add(1)
		go func() {
			defer wg.Done()
			w, err := startWorker()
			if err != nil {
				mu.Lock()
				startErr = err
				mu.Unlock()
				return
			}
			defer w.stop()
			for {
				req := nextJob()
				if req == nil {
					return
				}
				mu.Lock()
				s := stop
				mu.Unlock()
				if s {
					mu.Lock()
					inflight--
					cond.Broadcast()
					mu.Unlock()
					continue
				}
				tStart := time.Since(t0)
				res, err := w.run(req)
				if os.Getenv("GOSYM_TIMELINE") != "" && err == nil {
					fmt.Fprintf(os.Stderr, "timeline %6.2f..%6.2f %s%v level=%d paths=%d pending=%d\n", tStart.Seconds(), time.Since(t0).Seconds(), req.Harness, req.Args, req.Level, res.Paths, len(res.Pending))
				}
				if err != nil {
					res = &InstanceResult{Harness: req.Harness, Args: req.Args, EngineError: err.Error()}
					w2, err2 := startWorker()
					if err2 == nil {
						w = w2
					}
				}
				mu.Lock()
				for _, p := range res.Pending {
					sub := *req
					sub.Level = req.Level + 1
					if sub.Level >= 40 {
						sub.SplitAt = 0
					}
					sub.Prefix = p
					if sub.Prefix == nil {
						sub.Prefix = []decision{}
					}
					queue = append(queue, &sub)
					total++
				}
				res.Pending = nil
				inflight--
				cond.Broadcast()
				results = append(results, res)
				nviol := 0
				for _, r := range results {
					nviol += len(r.Violations)
				}
				if nviol >= 8 {
					stop = true
				}
				mu.Unlock()
			}
		}()
	}
	wg.Wait()
	if startErr != nil && len(results) == 0 {
		fmt.Println(startErr)
		if strings.Contains(startErr.Error(), "HARNESS-BUILD-FAILED") {
			fmt.Println("HARNESS-BUILD-FAILED: the harness overlay does not compile against /repo's current tree")
		}
		os.Exit(2)
	}

	// aggregate
	agg := aggregate(results)
	exit := 0
	var inconclusive []string
	for _, r := range results {
		if r.EngineError != "" {
			inconclusive = append(inconclusive, fmt.Sprintf("engine error in %s%v: %s", r.Harness, r.Args, firstLine(r.EngineError)))
		}
	}
	if agg.unknown > 0 {
		inconclusive = append(inconclusive, fmt.Sprintf("%d solver queries returned unknown", agg.unknown))
	}
	for reason, n := range agg.outOfReach {
		inconclusive = append(inconclusive, fmt.Sprintf("%d paths out of reach: %s", n, reason))
	}
	if !stop && len(results) < total {
		inconclusive = append(inconclusive, fmt.Sprintf("only %d of %d instances completed", len(results), total))
	}
	for h, cs := range mustCover {
		for _, c := range cs {
			if agg.covers[h+"/"+c] == 0 {
				inconclusive = append(inconclusive, fmt.Sprintf("cover point %s of %s never reached (vacuity guard)", c, h))
			}
		}
	}

	// native replay: violations, known findings, a few passing samples
	var cases []*replayCase
	for _, r := range results {
		for _, v := range r.Violations {
			if len(cases) < 6 {
				cases = append(cases, &replayCase{Harness: r.Harness, Args: r.Args, Vector: v.Vector, Expect: expectOf(v), viol: v})
			}
		}
	}
	knownSeen := map[string]*replayCase{}
	for _, r := range results {
		for kid, v := range r.KnownSeen {
			if _, ok := knownSeen[kid]; !ok {
				c := &replayCase{Harness: r.Harness, Args: r.Args, Vector: v.Vector, Expect: expectOf(v), viol: v, known: kid}
				knownSeen[kid] = c
			}
		}
	}
	var kids []string
	for k := range knownSeen {
		kids = append(kids, k)
	}
	sort.Strings(kids)
	for _, k := range kids {
		cases = append(cases, knownSeen[k])
	}
	nSamples := 0
	for _, r := range results {
		for _, sv := range r.SampleVectors {
			if nSamples < 4 {
				cases = append(cases, &replayCase{Harness: r.Harness, Args: r.Args, Vector: sv, Expect: "pass", sample: true})
				nSamples++
			}
		}
	}
	validated := 0
	nViolations := 0
	var violLines []string
	if len(cases) > 0 {
		outcomes := nativeReplay(id, cases)
		for i, c := range cases {
			got := outcomes[i]
			switch {
			case c.sample:
				if got == "pass" {
					validated++
				} else {
					inconclusive = append(inconclusive, fmt.Sprintf("ENCODER-MISMATCH: passing path of %s%v replays natively as %q", c.Harness, c.Args, got))
				}
			case id == "C19" && c.viol != nil && !(strings.HasPrefix(got, "race:") || strings.HasPrefix(got, "fail:C19/")):
				// a write to shared state that neither races nor changes a concurrent result under
				// the race detector (e.g. a properly locked cache) is reported but does not fail the check
				fmt.Printf("UNCONFIRMED-SHARED-WRITE: %s%v %s; native concurrent run: %s\n", c.Harness, c.Args, c.viol.Detail, got)
			case id == "C19" && c.viol != nil:
				validated++
				path := writeReplayFile(id, c)
				nViolations++
				violLines = append(violLines, fmt.Sprintf("VIOLATION property=%s replay=%s", id, path))
				fmt.Printf("  harness %s%v: %s\n  native concurrent run under the race detector: %s\n", c.Harness, c.Args, c.viol.AssertID, got)
			case matches(c.Expect, got):
				validated++
				path := writeReplayFile(id, c)
				if c.known != "" {
					k := kfByID[c.known]
					fmt.Printf("KNOWN-FINDING: property=%s %s %s (witness replay=%s)\n", id, c.known, k.What, path)
				} else {
					nViolations++
					violLines = append(violLines, fmt.Sprintf("VIOLATION property=%s replay=%s", id, path))
					fmt.Printf("  harness %s%v assertion %s: %s\n  inputs: %s\n  native replay: %s\n", c.Harness, c.Args, c.viol.AssertID, c.viol.Detail, vectorString(c.Vector), got)
				}
			default:
				inconclusive = append(inconclusive, fmt.Sprintf("ENCODER-MISMATCH: %s%v predicted %q (%s) but native replay gave %q; inputs: %s", c.Harness, c.Args, c.Expect, c.viol.AssertID, got, vectorString(c.Vector)))
			}
		}
	}
	for _, l := range violLines {
		fmt.Println(l)
	}
	if nViolations > 0 {
		exit = 1
	} else if len(inconclusive) > 0 {
		exit = 2
	}
	for _, s := range inconclusive {
		fmt.Println("INCONCLUSIVE:", s)
	}
	wall := time.Since(t0).Seconds()
	writeEvidence(id, tier, seed, spec, hs, results, agg, validated, nViolations, inconclusive, wall, kids)
	fmt.Printf("%s %s: instances %d paths %d (completed %d, infeasible %d, panics %d) forks %d assertions %d queries sat/unsat/unknown %d/%d/%d solver %.1fs wall %.1fs\n",
		id, tier, len(results), agg.paths, agg.completed, agg.infeasible, agg.panics, agg.forks, agg.asserts, agg.sat, agg.unsat, agg.unknown, agg.solverS, wall)
	if os.Getenv("GOSYM_REPO") != "" {
		fmt.Printf("evidence: %s (tree %s)\n", filepath.Join(verifDir, "out", "evidence_other_tree", id+".json"), os.Getenv("GOSYM_REPO"))
	} else {
		fmt.Printf("evidence: %s\n", filepath.Join(verifDir, "evidence", id+".json"))
	}
	os.Exit(exit)
}

func firstLine(s string) string {
	if i := strings.IndexByte(s, '\n'); i >= 0 {
		return s[:i]
	}
	return s
}

func expectOf(v *Violation) string {
	switch v.Kind {
	case "assert":
		return "fail:" + v.AssertID
	case "panic":
		return "panic"
	case "budget":
		return "crash"
	}
	return "fail"
}

func matches(expect, got string) bool {
	switch {
	case strings.HasPrefix(expect, "fail:"):
		return got == expect
	case expect == "panic":
		return strings.HasPrefix(got, "panic:") || got == "crash"
	case expect == "crash":
		return got == "crash" || strings.HasPrefix(got, "panic:")
	}
	return expect == got
}

func vectorString(v []ReplayItem) string {
	var parts []string
	var cur string
	var buf []byte
	flush := func() {
		if cur != "" {
			parts = append(parts, fmt.Sprintf("%s=%q", cur, string(buf)))
			cur, buf = "", nil
		}
	}
	for _, it := range v {
		switch it.Kind {
		case "len":
			flush()
			cur = it.Tag
			if it.Val == 0 {
				flush()
				parts = append(parts, fmt.Sprintf("%s=\"\"", it.Tag))
			}
		case "byte":
			if cur != "" && strings.HasPrefix(it.Tag, cur+"[") {
				buf = append(buf, byte(it.Val))
			} else {
				flush()
				parts = append(parts, fmt.Sprintf("%s=%q", it.Tag, string([]byte{byte(it.Val)})))
			}
		default:
			flush()
			parts = append(parts, fmt.Sprintf("%s=%d", it.Tag, it.Val))
		}
	}
	flush()
	return strings.Join(parts, " ")
}

type aggT struct {
	paths, completed, infeasible, panics, budget, forks, asserts, assertQ, unknown, domDecided int
	sat, unsat                                                                   int
	solverS                                                                      float64
	steps                                                                        int64
	outOfReach                                                                   map[string]int
	covers                                                                       map[string]int
	symFns                                                                       map[string]bool
	stubs                                                                        map[string]int
}

func aggregate(results []*InstanceResult) *aggT {
	a := &aggT{outOfReach: map[string]int{}, covers: map[string]int{}, symFns: map[string]bool{}, stubs: map[string]int{}}
	for _, r := range results {
		a.paths += r.Paths
		a.completed += r.Completed
		a.infeasible += r.Infeasible
		a.panics += r.Panics
		a.budget += r.Budget
		a.forks += r.Forks
		a.asserts += r.Asserts
		a.assertQ += r.AssertQ
		a.unknown += r.Unknown
		a.domDecided += r.DomDecided
		a.sat += r.Solver.Sat
		a.unsat += r.Solver.Unsat
		a.solverS += r.Solver.Time.Seconds()
		a.steps += r.Steps
		for k, v := range r.OutOfReach {
			a.outOfReach[k] += v
		}
		for k, v := range r.Covers {
			a.covers[r.Harness+"/"+k] += v
		}
		for _, f := range r.SymFns {
			a.symFns[f] = true
		}
		for k, v := range r.Stubs {
			a.stubs[k] += v
		}
	}
	return a
}

// ---------------------------------------------------------------- native replay

func writeOverlay() string {
	ov := struct {
		Replace map[string]string
	}{Replace: overlayMap(true)}
	dir := filepath.Join(verifDir, "out")
	os.MkdirAll(dir, 0o755)
	path := filepath.Join(dir, "overlay.json")
	b, _ := json.MarshalIndent(ov, "", " ")
	os.WriteFile(path, b, 0o644)
	return path
}

var reReplay = regexp.MustCompile(`^VREPLAY (\d+) (.*)$`)
var reStart = regexp.MustCompile(`^VREPLAY-START (\d+)$`)

// nativeReplay runs the cases against the natively compiled package, returning one outcome
// per case: pass | fail:<id> | panic:<msg> | crash | assume-failed | mismatch:<why> | error:<why>
func nativeReplay(id string, cases []*replayCase) []string {
	out := make([]string, len(cases))
	ov := writeOverlay()
	dir := filepath.Join(verifDir, "out")
	from := 0
	for from < len(cases) {
		file := filepath.Join(dir, fmt.Sprintf("replay-batch-%s-%d.json", id, os.Getpid()))
		b, _ := json.Marshal(cases[from:])
		os.WriteFile(file, b, 0o644)
		race := os.Getenv("GOSYM_REPLAY_RACE") != "" || id == "C19"
		args := []string{"test", "-tags", "verifreplay", "-overlay", ov, "-run", "^TestVReplay$", "-count=1", "-vet=off", "-v", "-timeout", "120s"}
		if race {
			args = append(args, "-race")
		}
		args = append(args, ".")
		cmd := exec.Command("go", args...)
		cmd.Dir = repoDir
		cmd.Env = append(os.Environ(), "VREPLAY_FILE="+file, "GOFLAGS=-mod=mod", "GOPROXY=off", "GOSUMDB=off", "GOTOOLCHAIN=local")
		var buf bytes.Buffer
		cmd.Stdout = &buf
		cmd.Stderr = &buf
		cmd.Run()
		os.Remove(file)
		started := -1
		done := map[int]bool{}
		for _, line := range strings.Split(buf.String(), "\n") {
			if m := reStart.FindStringSubmatch(line); m != nil {
				started, _ = strconv.Atoi(m[1])
			} else if m := reReplay.FindStringSubmatch(line); m != nil {
				i, _ := strconv.Atoi(m[1])
				out[from+i] = m[2]
				done[i] = true
			}
		}
		if race && strings.Contains(buf.String(), "DATA RACE") {
			// the race detector fired during this batch: every case of the batch is a candidate;
			// re-run them one by one to attribute it
			if len(cases)-from > 1 {
				for i := from; i < len(cases); i++ {
					out[i] = nativeReplay(id, cases[i:i+1])[0]
				}
				return out
			}
			out[from] = "race:" + lastLines(buf.String(), 3)
			return out
		}
		n := len(cases) - from
		if len(done) == n {
			break
		}
		if started < 0 || done[started] {
			// the test binary did not even start (build failure?)
			msg := "error:native replay did not run: " + lastLines(buf.String(), 6)
			for i := 0; i < n; i++ {
				if !done[i] {
					out[from+i] = msg
				}
			}
			break
		}
		out[from+started] = "crash"
		if os.Getenv("GOSYM_DEBUG") != "" {
			fmt.Fprintln(os.Stderr, lastLines(buf.String(), 30))
		}
		from = from + started + 1
	}
	return out
}

func lastLines(s string, n int) string {
	ls := strings.Split(strings.TrimSpace(s), "\n")
	if len(ls) > n {
		ls = ls[len(ls)-n:]
	}
	return strings.Join(ls, " | ")
}

func writeReplayFile(id string, c *replayCase) string {
	dir := filepath.Join(verifDir, "out", "replay")
	os.MkdirAll(dir, 0o755)
	b, _ := json.MarshalIndent([]*replayCase{c}, "", " ")
	h := sha1.Sum(b)
	path := filepath.Join(dir, fmt.Sprintf("%s-%x.json", id, h[:4]))
	os.WriteFile(path, b, 0o644)
	return path
}

// replayMain: gosym replay <file> — re-run a stored vector natively.
func replayMain(a []string) {
	if len(a) < 1 {
		fatal("replay <file>")
	}
	var cases []*replayCase
	loadJSON(a[0], &cases)
	outs := nativeReplay("replay", cases)
	bad := false
	for i, c := range cases {
		fmt.Printf("%s%v expect %s: native %s\n", c.Harness, c.Args, c.Expect, outs[i])
		if c.Expect != "pass" && matches(c.Expect, outs[i]) {
			bad = true
		}
	}
	if bad {
		os.Exit(1)
	}
}

// ---------------------------------------------------------------- evidence

func writeEvidence(id, tier string, seed int, spec *PropertySpec, hs []HarnessSpec, results []*InstanceResult, a *aggT,
	validated, nviol int, inconclusive []string, wall float64, known []string) {
	type inst struct {
		Harness string `json:"harness"`
		Args    []int  `json:"args"`
		Paths   int    `json:"paths"`
		Sample  string `json:"sample_inputs,omitempty"`
	}
	var samples []interface{}
	nontrivial := 0
	for _, r := range results {
		if r.Forks > 0 || r.Asserts > 0 {
			nontrivial += r.Completed + r.Panics
		}
		if len(samples) < 8 && len(r.Samples) > 0 {
			samples = append(samples, inst{r.Harness, r.Args, r.Paths, r.Samples[0]})
		}
	}
	if len(samples) == 0 {
		samples = append(samples, "no path with symbolic inputs completed")
	}
	var hnames []string
	for _, h := range hs {
		hnames = append(hnames, h.H)
	}
	level := spec.Level
	if level == "" {
		level = "model_checking"
	}
	ev := map[string]interface{}{
		"property_id": id,
		"tier":        tier,
		"seed":        seed,
		"level":       level,
		"wall_s":      wall,
		"violations":  nviol,
		"assumptions": spec.Assumptions,
		"coverage": map[string]interface{}{
			"states":                        a.paths,
			"transitions":                   a.forks,
			"traces_validated_against_impl": validated,
			"evaluations":                   a.paths,
			"distinct_nontrivial":           nontrivial,
			"rule": "one evaluation = one explored path of the real SSA (a class of inputs sharing all branch outcomes); paths partition the bounded input space; non-trivial = completed or panicking path of an instance that forked on symbolic data or discharged an assertion query",
			"samples":               samples,
			"exhaustive":            len(inconclusive) == 0,
			"harnesses":             hnames,
			"instances":             len(results),
			"bounds":                spec.Bounds,
			"functions_encoded":     sortedKeys(a.symFns),
			"queries":               map[string]int{"sat": a.sat, "unsat": a.unsat, "unknown": a.unknown, "assertion_queries": a.assertQ},
			"assertions_discharged": a.asserts,
			"branch_decisions_by_value_set_propagation": a.domDecided,
			"solver_s":              a.solverS,
			"ssa_steps":             a.steps,
			"paths":                 map[string]int{"completed": a.completed, "infeasible": a.infeasible, "panic": a.panics, "budget_exceeded": a.budget},
			"out_of_reach":          a.outOfReach,
			"cover":                 a.covers,
			"stubs":                 a.stubs,
			"known_findings_seen":   known,
			"inconclusive":          inconclusive,
			"solver":                "z3 4.8.12 via one `z3 -in` per worker (push/pop aligned with the path condition)",
		},
	}
	dir := filepath.Join(verifDir, "evidence")
	if os.Getenv("GOSYM_REPO") != "" {
		// a run against some other tree (a seeded change) must not replace the evidence for /repo
		dir = filepath.Join(verifDir, "out", "evidence_other_tree")
	}
	os.MkdirAll(dir, 0o755)
	b, _ := json.MarshalIndent(ev, "", " ")
	os.WriteFile(filepath.Join(dir, id+".json"), b, 0o644)
}

// evalCount runs a count function concretely: func(tier, seed int) int
func (w *worker) evalCount(name string, tier, seed int) (n int) {
	fn := w.pkg.Func(name)
	if fn == nil {
		fatal("no such count function %s", name)
	}
	res := &InstanceResult{OutOfReach: map[string]int{}, Covers: map[string]int{}, KnownSeen: map[string]*Violation{}, Stubs: map[string]int{}}
	resetTerms()
	x := &Explorer{inst: res, symFns: map[string]bool{}}
	x.beginPath(nil)
	I = newInterp(w.prog, w.pkg, x)
	if init := w.pkg.Func("init"); init != nil {
		call(nil, 0, init, nil)
	}
	var args []value
	switch fn.Signature.Params().Len() {
	case 0:
	case 1:
		args = []value{tier}
	default:
		args = []value{tier, seed}
	}
	r := call(nil, 0, fn, args)
	return r.(int)
}
