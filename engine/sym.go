package main

// Symbolic extensions of the value domain: *Term scalars and sstr strings.

import (
	"fmt"
	"go/token"
	"go/types"
	"math"
)

// sstr is an immutable string with at least one symbolic byte. Elements are uint8 or *Term (SBV8).
type sstr []value

func isSym(v value) bool {
	switch v.(type) {
	case *Term, sstr:
		return true
	}
	return false
}

func basicKind(t types.Type) types.BasicKind {
	if b, ok := t.Underlying().(*types.Basic); ok {
		k := b.Kind()
		switch k {
		case types.UntypedInt:
			return types.Int
		case types.UntypedFloat:
			return types.Float64
		case types.UntypedBool:
			return types.Bool
		case types.UntypedRune:
			return types.Int32
		case types.UntypedString:
			return types.String
		}
		return k
	}
	return types.Invalid
}

func kindSort(k types.BasicKind) (Sort, bool /*signed*/) {
	switch k {
	case types.Bool:
		return SBool, false
	case types.Int, types.Int64:
		return SBV64, true
	case types.Int8:
		return SBV8, true
	case types.Int16:
		return SBV16, true
	case types.Int32:
		return SBV32, true
	case types.Uint, types.Uint64, types.Uintptr:
		return SBV64, false
	case types.Uint8:
		return SBV8, false
	case types.Uint16:
		return SBV16, false
	case types.Uint32:
		return SBV32, false
	case types.Float64:
		return SFP64, true
	}
	panic(outOfReach{fmt.Sprintf("symbolic value of basic kind %v", k)})
}

// toTerm converts a concrete scalar or a *Term to a *Term.
func toTerm(v value) *Term {
	switch v := v.(type) {
	case *Term:
		return v
	case bool:
		return mkBool(v)
	case int:
		return mkConst(SBV64, uint64(v))
	case int8:
		return mkConst(SBV8, uint64(v))
	case int16:
		return mkConst(SBV16, uint64(v))
	case int32:
		return mkConst(SBV32, uint64(v))
	case int64:
		return mkConst(SBV64, uint64(v))
	case uint:
		return mkConst(SBV64, uint64(v))
	case uint8:
		return mkConst(SBV8, uint64(v))
	case uint16:
		return mkConst(SBV16, uint64(v))
	case uint32:
		return mkConst(SBV32, uint64(v))
	case uint64:
		return mkConst(SBV64, v)
	case uintptr:
		return mkConst(SBV64, uint64(v))
	case float64:
		return mkFConst(v)
	}
	panic(fmt.Sprintf("toTerm: %T", v))
}

// fromTerm converts a constant term back to the concrete Go value of kind k; other terms stay.
func fromTerm(t *Term, k types.BasicKind) value {
	if !t.isConst() {
		return t
	}
	v := t.val
	switch k {
	case types.Bool:
		return v != 0
	case types.Int:
		return int(v)
	case types.Int8:
		return int8(v)
	case types.Int16:
		return int16(v)
	case types.Int32:
		return int32(v)
	case types.Int64:
		return int64(v)
	case types.Uint:
		return uint(v)
	case types.Uint8:
		return uint8(v)
	case types.Uint16:
		return uint16(v)
	case types.Uint32:
		return uint32(v)
	case types.Uint64:
		return v
	case types.Uintptr:
		return uintptr(v)
	case types.Float64:
		return math.Float64frombits(v)
	}
	panic(fmt.Sprintf("fromTerm kind %v", k))
}

// ---------------------------------------------------------------- strings

func strBytes(v value) []value {
	switch s := v.(type) {
	case string:
		checkLazy(s)
		r := make([]value, len(s))
		for i := 0; i < len(s); i++ {
			r[i] = s[i]
		}
		return r
	case sstr:
		return []value(s)
	}
	panic(fmt.Sprintf("strBytes: %T", v))
}

func strLen(v value) int {
	switch s := v.(type) {
	case string:
		return len(s)
	case sstr:
		return len(s)
	}
	panic(fmt.Sprintf("strLen: %T", v))
}

// mkStr builds a string value from byte values, normalising to a Go string when concrete.
func mkStr(bs []value) value {
	conc := true
	for _, b := range bs {
		if t, ok := b.(*Term); ok {
			if t.isConst() {
				continue
			}
			conc = false
			break
		}
	}
	if conc {
		buf := make([]byte, len(bs))
		for i, b := range bs {
			switch b := b.(type) {
			case uint8:
				buf[i] = b
			case *Term:
				buf[i] = byte(b.val)
			default:
				panic(fmt.Sprintf("mkStr: element %T", b))
			}
		}
		return string(buf)
	}
	r := make(sstr, len(bs))
	copy(r, bs)
	return r
}

func byteTerm(v value) *Term {
	switch b := v.(type) {
	case uint8:
		return mkConst(SBV8, uint64(b))
	case *Term:
		if b.sort != SBV8 {
			panic("byteTerm: not a byte term")
		}
		return b
	}
	panic(fmt.Sprintf("byteTerm: %T", v))
}

// bytesEqTerm: equality of two byte sequences.
func bytesEqTerm(a, b []value) *Term {
	if len(a) != len(b) {
		return tFalse
	}
	r := tTrue
	for i := range a {
		r = mkAnd(r, mkEq(byteTerm(a[i]), byteTerm(b[i])))
		if r.isFalse() {
			return r
		}
	}
	return r
}

// bytesLtTerm: lexicographic a < b.
func bytesLtTerm(a, b []value) *Term {
	n := len(a)
	if len(b) < n {
		n = len(b)
	}
	// build from the end: lt_i = a[i]<b[i] ∨ (a[i]=b[i] ∧ lt_{i+1})
	r := mkBool(len(a) < len(b))
	for i := n - 1; i >= 0; i-- {
		x, y := byteTerm(a[i]), byteTerm(b[i])
		r = mkOr(mkCmp(OpUlt, x, y), mkAnd(mkEq(x, y), r))
	}
	return r
}

// bytesCmpTerm models bytes.Compare: -1, 0, +1 as an int term.
func bytesCmpTerm(a, b []value) *Term {
	lt := bytesLtTerm(a, b)
	eq := bytesEqTerm(a, b)
	return mkIte(lt, mkConst(SBV64, ^uint64(0)), mkIte(eq, mkConst(SBV64, 0), mkConst(SBV64, 1)))
}

func bytesHasPrefixTerm(s, p []value) *Term {
	if len(p) > len(s) {
		return tFalse
	}
	return bytesEqTerm(s[:len(p)], p)
}

func boolVal(t *Term) value {
	if t.isConst() {
		return t.val != 0
	}
	return t
}

func intVal(t *Term) value {
	if t.isConst() {
		return int(t.val)
	}
	return t
}

// symStringBinop handles string operators when an operand is an sstr.
func symStringBinop(op token.Token, x, y value) value {
	a, b := strBytes(x), strBytes(y)
	switch op {
	case token.ADD:
		r := make([]value, 0, len(a)+len(b))
		r = append(r, a...)
		r = append(r, b...)
		return mkStr(r)
	case token.EQL:
		return boolVal(bytesEqTerm(a, b))
	case token.NEQ:
		return boolVal(mkNot(bytesEqTerm(a, b)))
	case token.LSS:
		return boolVal(bytesLtTerm(a, b))
	case token.GTR:
		return boolVal(bytesLtTerm(b, a))
	case token.LEQ:
		return boolVal(mkNot(bytesLtTerm(b, a)))
	case token.GEQ:
		return boolVal(mkNot(bytesLtTerm(a, b)))
	}
	panic(fmt.Sprintf("symStringBinop: %v", op))
}

// ---------------------------------------------------------------- scalar operators

func symBinop(op token.Token, t types.Type, x, y value) value {
	if _, ok := x.(sstr); ok {
		return symStringBinop(op, x, y)
	}
	if _, ok := y.(sstr); ok {
		return symStringBinop(op, x, y)
	}
	k := basicKind(t)
	if k == types.Invalid {
		panic(fmt.Sprintf("symBinop: non-basic type %v for %T %v %T", t, x, op, y))
	}
	srt, signed := kindSort(k)
	a := toTerm(x)
	var b *Term
	if op == token.SHL || op == token.SHR {
		// shift count may have a different (unsigned or signed) type: normalise to operand width
		b = toTerm(y)
		if b.sort != a.sort {
			if b.sort.width() < a.sort.width() {
				b = mkZext(b, a.sort)
			} else {
				// saturate: counts ≥ width behave alike; keep low bits but force large if high bits set
				hi := mkCmp(OpUle, mkConst(b.sort, uint64(a.sort.width())), b)
				b = mkIte(hi, mkConst(a.sort, uint64(a.sort.width())), mkTrunc(b, a.sort))
			}
		}
	} else {
		b = toTerm(y)
	}
	if srt == SFP64 {
		switch op {
		case token.ADD:
			return fromTerm(mkFBin(OpFAdd, a, b), k)
		case token.SUB:
			return fromTerm(mkFBin(OpFSub, a, b), k)
		case token.MUL:
			return fromTerm(mkFBin(OpFMul, a, b), k)
		case token.QUO:
			return fromTerm(mkFBin(OpFDiv, a, b), k)
		case token.EQL:
			return boolVal(mkFCmp(OpFEq, a, b))
		case token.NEQ:
			return boolVal(mkNot(mkFCmp(OpFEq, a, b)))
		case token.LSS:
			return boolVal(mkFCmp(OpFLt, a, b))
		case token.LEQ:
			return boolVal(mkFCmp(OpFLe, a, b))
		case token.GTR:
			return boolVal(mkFCmp(OpFLt, b, a))
		case token.GEQ:
			return boolVal(mkFCmp(OpFLe, b, a))
		}
		panic(fmt.Sprintf("symBinop float: %v", op))
	}
	if srt == SBool {
		switch op {
		case token.EQL:
			return boolVal(mkEq(a, b))
		case token.NEQ:
			return boolVal(mkNot(mkEq(a, b)))
		case token.AND, token.LAND:
			return boolVal(mkAnd(a, b))
		case token.OR, token.LOR:
			return boolVal(mkOr(a, b))
		}
		panic(fmt.Sprintf("symBinop bool: %v", op))
	}
	switch op {
	case token.ADD:
		return fromTerm(mkBin(OpAdd, a, b), k)
	case token.SUB:
		return fromTerm(mkBin(OpSub, a, b), k)
	case token.MUL:
		a, b = concretizeForMul(a, b)
		return fromTerm(mkBin(OpMul, a, b), k)
	case token.QUO, token.REM:
		// division by zero is a Go panic
		z := mkEq(b, mkConst(b.sort, 0))
		if !z.isFalse() {
			if I.x.branch(z) {
				panic(rtPanic("runtime error: integer divide by zero"))
			}
		}
		if !b.isConst() {
			b = concretizeTerm(b, "divisor")
		}
		o := OpUDiv
		if op == token.REM {
			o = OpURem
		}
		if signed {
			o = OpSDiv
			if op == token.REM {
				o = OpSRem
			}
		}
		return fromTerm(mkBin(o, a, b), k)
	case token.AND:
		return fromTerm(mkBin(OpBAnd, a, b), k)
	case token.OR:
		return fromTerm(mkBin(OpBOr, a, b), k)
	case token.XOR:
		return fromTerm(mkBin(OpBXor, a, b), k)
	case token.AND_NOT:
		return fromTerm(mkBin(OpBAnd, a, mkBNot(b)), k)
	case token.SHL:
		return fromTerm(mkBin(OpShl, a, b), k)
	case token.SHR:
		if signed {
			return fromTerm(mkBin(OpAShr, a, b), k)
		}
		return fromTerm(mkBin(OpLShr, a, b), k)
	case token.EQL:
		return boolVal(mkEq(a, b))
	case token.NEQ:
		return boolVal(mkNot(mkEq(a, b)))
	case token.LSS:
		if signed {
			return boolVal(mkCmp(OpSlt, a, b))
		}
		return boolVal(mkCmp(OpUlt, a, b))
	case token.LEQ:
		if signed {
			return boolVal(mkCmp(OpSle, a, b))
		}
		return boolVal(mkCmp(OpUle, a, b))
	case token.GTR:
		if signed {
			return boolVal(mkCmp(OpSlt, b, a))
		}
		return boolVal(mkCmp(OpUlt, b, a))
	case token.GEQ:
		if signed {
			return boolVal(mkCmp(OpSle, b, a))
		}
		return boolVal(mkCmp(OpUle, b, a))
	}
	panic(fmt.Sprintf("symBinop: %v on %v", op, t))
}

// concretizeForMul makes sure at most one operand of a multiplication is non-constant.
func concretizeForMul(a, b *Term) (*Term, *Term) {
	if a.isConst() || b.isConst() {
		return a, b
	}
	if I.allowSymMul {
		return a, b
	}
	// prefer the operand with a known small value-set
	if b.vs != nil && (a.vs == nil || len(b.vs) <= len(a.vs)) {
		return a, concretizeTerm(b, "factor")
	}
	if a.vs != nil {
		return concretizeTerm(a, "factor"), b
	}
	return a, concretizeTerm(b, "factor")
}

func symUnop(op token.Token, t types.Type, x *Term) value {
	k := basicKind(t)
	switch op {
	case token.NOT:
		return boolVal(mkNot(x))
	case token.SUB:
		if x.sort == SFP64 {
			return fromTerm(mkFUn(OpFNeg, x), k)
		}
		return fromTerm(mkNeg(x), k)
	case token.XOR:
		return fromTerm(mkBNot(x), k)
	}
	panic(fmt.Sprintf("symUnop %v", op))
}

// symConv converts a symbolic scalar between basic types.
func symConv(tDst, tSrc types.Type, x *Term) value {
	ks, kd := basicKind(tSrc), basicKind(tDst)
	if kd == types.String {
		// string(byteOrRune): single ASCII character
		if x.sort == SBV8 {
			return mkStr([]value{x})
		}
		lo := mkTrunc(x, SBV8)
		// only ASCII runes are supported symbolically
		asc := mkCmp(OpUlt, x, mkConst(x.sort, 0x80))
		if !I.x.branch(asc) {
			panic(outOfReach{"string(rune) of non-ASCII symbolic value"})
		}
		return mkStr([]value{lo})
	}
	ss, ssigned := kindSort(ks)
	ds, _ := kindSort(kd)
	_ = ss
	switch {
	case x.sort == SFP64 && ds == SFP64:
		return x
	case x.sort == SFP64:
		// float → int: refuse out-of-range values rather than guess
		lim := mkFConst(9.2e18)
		inr := mkAnd(mkFCmp(OpFLt, x, lim), mkFCmp(OpFLt, mkFUn(OpFNeg, lim), x))
		if !I.x.branch(inr) {
			panic(outOfReach{"float to int conversion out of range"})
		}
		r := mkFPToSI(x, SBV64)
		if ds != SBV64 {
			r = mkTrunc(r, ds)
		}
		return fromTerm(r, kd)
	case ds == SFP64:
		w := x
		if ssigned {
			if x.sort != SBV64 {
				w = mkSext(x, SBV64)
			}
			return fromTerm(mkSIToFP(w), kd)
		}
		if x.sort != SBV64 {
			w = mkZext(x, SBV64)
		}
		return fromTerm(mkUIToFP(w), kd)
	case ds == SBool || x.sort == SBool:
		return x
	}
	sw, dw := x.sort.width(), ds.width()
	switch {
	case dw == sw:
		return fromTerm(x, kd)
	case dw < sw:
		return fromTerm(mkTrunc(x, ds), kd)
	case ssigned:
		return fromTerm(mkSext(x, ds), kd)
	default:
		return fromTerm(mkZext(x, ds), kd)
	}
}

// symEquals: equality of two values of type t as a Bool term (or concrete bool).
func symEquals(t types.Type, x, y value) value {
	switch xv := x.(type) {
	case *Term:
		return symBinop(token.EQL, t, x, y)
	case sstr:
		return symStringBinop(token.EQL, x, y)
	case structure:
		st := t.Underlying().(*types.Struct)
		yv := y.(structure)
		r := tTrue
		for i := 0; i < st.NumFields(); i++ {
			if st.Field(i).Name() == "_" {
				continue
			}
			r = mkAnd(r, toBoolTerm(symEquals(st.Field(i).Type(), xv[i], yv[i])))
		}
		return boolVal(r)
	case array:
		et := t.Underlying().(*types.Array).Elem()
		yv := y.(array)
		r := tTrue
		for i := range xv {
			r = mkAnd(r, toBoolTerm(symEquals(et, xv[i], yv[i])))
		}
		return boolVal(r)
	case iface:
		yv := y.(iface)
		if !sameType(xv.t, yv.t) {
			return false
		}
		if xv.t == nil {
			return true
		}
		return symEquals(xv.t, xv.v, yv.v)
	}
	if isSym(y) {
		switch y.(type) {
		case *Term:
			return symBinop(token.EQL, t, x, y)
		case sstr:
			return symStringBinop(token.EQL, x, y)
		}
	}
	return equals(t, x, y)
}

func toBoolTerm(v value) *Term {
	switch b := v.(type) {
	case bool:
		return mkBool(b)
	case *Term:
		return b
	}
	panic(fmt.Sprintf("toBoolTerm: %T", v))
}

// containsSym reports whether a composite value contains symbolic parts (shallow for pointers).
func containsSym(v value) bool {
	switch v := v.(type) {
	case *Term, sstr:
		return true
	case structure:
		for _, f := range v {
			if containsSym(f) {
				return true
			}
		}
	case array:
		for _, f := range v {
			if containsSym(f) {
				return true
			}
		}
	case iface:
		return containsSym(v.v)
	}
	return false
}

// sliceBytes views a []byte slice value as byte values.
func sliceHasSym(s []value) bool {
	for _, b := range s {
		if t, ok := b.(*Term); ok && !t.isConst() {
			return true
		}
	}
	return false
}

func concreteBytes(s []value) []byte {
	r := make([]byte, len(s))
	for i, b := range s {
		switch b := b.(type) {
		case uint8:
			r[i] = b
		case *Term:
			if !b.isConst() {
				panic("concreteBytes: symbolic")
			}
			r[i] = byte(b.val)
		default:
			panic(fmt.Sprintf("concreteBytes: %T", b))
		}
	}
	return r
}

func bytesToValues(b []byte) []value {
	r := make([]value, len(b))
	for i := range b {
		r[i] = b[i]
	}
	return r
}
