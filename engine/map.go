package main

// Ordered maps with support for keys that have symbolic content.

import (
	"fmt"
	"go/types"
)

type mentry struct {
	k, v    value
	deleted bool
}

type omap struct {
	keyType types.Type
	idx     map[interface{}]int // concrete hashable keys -> entry index
	entries []mentry
	n       int
	symKeys int // number of live entries whose key has symbolic content
}

func makeMap(kt types.Type) value {
	return &omap{keyType: kt, idx: make(map[interface{}]int)}
}

// hashKey returns a Go-comparable key for concrete keys of basic/pointer type; ok=false otherwise.
func hashKey(k value) (interface{}, bool) {
	if ks, ok := k.(string); ok {
		checkLazy(ks)
	}
	switch k := k.(type) {
	case bool, int, int8, int16, int32, int64, uint, uint8, uint16, uint32, uint64, uintptr, float32, float64, string, *value:
		return k, true
	case iface:
		if k.t == nil {
			return "<nil-iface>", true
		}
		if hk, ok := hashKey(k.v); ok {
			return [2]interface{}{k.t.String(), hk}, true
		}
	case structure:
		s := "struct{"
		for _, f := range k {
			hk, ok := hashKey(f)
			if !ok {
				return nil, false
			}
			s += fmt.Sprintf("%T:%v;", hk, hk)
		}
		return s + "}", true
	}
	return nil, false
}

func (m *omap) len() int {
	if m == nil {
		return 0
	}
	return m.n
}

// find returns the index of the entry equal to k, or -1. May fork on symbolic equality.
func (m *omap) find(k value) int {
	if m == nil {
		return -1
	}
	hk, hashable := hashKey(k)
	if hashable && m.symKeys == 0 {
		if i, ok := m.idx[hk]; ok {
			return i
		}
		return -1
	}
	if hashable {
		if i, ok := m.idx[hk]; ok {
			return i
		}
	}
	for i := range m.entries {
		e := &m.entries[i]
		if e.deleted {
			continue
		}
		if hashable {
			if _, eh := hashKey(e.k); eh {
				continue // concrete vs concrete, already settled by idx
			}
		}
		switch eq := symEquals(m.keyType, k, e.k).(type) {
		case bool:
			if eq {
				return i
			}
		case *Term:
			if I.x.branch(eq) {
				return i
			}
		}
	}
	return -1
}

func (m *omap) lookup(k value) (value, bool) {
	i := m.find(k)
	if i < 0 {
		return nil, false
	}
	return m.entries[i].v, true
}

func (m *omap) insert(k, v value) {
	i := m.find(k)
	if i >= 0 {
		m.entries[i].v = v
		return
	}
	m.entries = append(m.entries, mentry{k: k, v: v})
	m.n++
	if hk, ok := hashKey(k); ok {
		m.idx[hk] = len(m.entries) - 1
	} else {
		m.symKeys++
	}
}

func (m *omap) delete(k value) {
	if m == nil {
		return
	}
	i := m.find(k)
	if i < 0 {
		return
	}
	e := &m.entries[i]
	e.deleted = true
	m.n--
	if hk, ok := hashKey(e.k); ok {
		delete(m.idx, hk)
	} else {
		m.symKeys--
	}
	e.k, e.v = nil, nil
}

func (m *omap) clear() {
	if m == nil {
		return
	}
	m.entries = nil
	m.idx = make(map[interface{}]int)
	m.n = 0
	m.symKeys = 0
}

type omapIter struct {
	m    *omap
	keys []value // snapshot of keys in iteration order
	i    int
}

func newOmapIter(m *omap) *omapIter {
	it := &omapIter{m: m}
	if m != nil {
		for _, e := range m.entries {
			if !e.deleted {
				it.keys = append(it.keys, e.k)
			}
		}
		if I != nil && I.reverseMaps {
			for a, b := 0, len(it.keys)-1; a < b; a, b = a+1, b-1 {
				it.keys[a], it.keys[b] = it.keys[b], it.keys[a]
			}
		}
	}
	return it
}

func (it *omapIter) next() tuple {
	for it.i < len(it.keys) {
		k := it.keys[it.i]
		it.i++
		// entries deleted during iteration are skipped, as in Go
		if hk, ok := hashKey(k); ok {
			if j, ok := it.m.idx[hk]; ok {
				return tuple{true, k, it.m.entries[j].v}
			}
			continue
		}
		for j := range it.m.entries {
			e := &it.m.entries[j]
			if !e.deleted && sameValue(e.k, k) {
				return tuple{true, k, e.v}
			}
		}
	}
	return tuple{false, nil, nil}
}

// sameValue is identity of symbolic keys (same terms), used only for iteration snapshots.
func sameValue(a, b value) bool {
	switch a := a.(type) {
	case *Term:
		bt, ok := b.(*Term)
		return ok && a == bt
	case sstr:
		bs, ok := b.(sstr)
		if !ok || len(a) != len(bs) {
			return false
		}
		for i := range a {
			if !sameValue(a[i], bs[i]) {
				return false
			}
		}
		return true
	case uint8:
		bb, ok := b.(uint8)
		return ok && a == bb
	}
	return false
}
