package main

// Hash-consed SMT terms with an eager simplifier and small value-sets.

import (
	"fmt"
	"math"
	"math/bits"
	"sort"
	"strings"
)

type Sort uint8

const (
	SBool Sort = iota
	SBV8
	SBV16
	SBV32
	SBV64
	SFP64
)

func (s Sort) width() uint {
	switch s {
	case SBV8:
		return 8
	case SBV16:
		return 16
	case SBV32:
		return 32
	case SBV64, SFP64:
		return 64
	}
	return 1
}

func (s Sort) smt() string {
	switch s {
	case SBool:
		return "Bool"
	case SFP64:
		return "(_ FloatingPoint 11 53)"
	}
	return fmt.Sprintf("(_ BitVec %d)", s.width())
}

func bvSort(w uint) Sort {
	switch w {
	case 8:
		return SBV8
	case 16:
		return SBV16
	case 32:
		return SBV32
	case 64:
		return SBV64
	}
	panic(fmt.Sprintf("bvSort %d", w))
}

type Op uint8

const (
	OpConst Op = iota
	OpVar
	OpNot
	OpAnd
	OpOr
	OpEq
	OpIte
	OpAdd
	OpSub
	OpMul
	OpSDiv
	OpUDiv
	OpSRem
	OpURem
	OpNeg
	OpBAnd
	OpBOr
	OpBXor
	OpBNot
	OpShl
	OpLShr
	OpAShr
	OpUlt
	OpUle
	OpSlt
	OpSle
	OpZext
	OpSext
	OpTrunc
	OpFAdd
	OpFSub
	OpFMul
	OpFDiv
	OpFNeg
	OpFAbs
	OpFSqrt
	OpFLt
	OpFLe
	OpFEq
	OpSIToFP
	OpUIToFP
	OpFPToSI
	OpFIsNaN
)

var opSMT = map[Op]string{
	OpNot: "not", OpAnd: "and", OpOr: "or", OpEq: "=", OpIte: "ite",
	OpAdd: "bvadd", OpSub: "bvsub", OpMul: "bvmul", OpSDiv: "bvsdiv", OpUDiv: "bvudiv",
	OpSRem: "bvsrem", OpURem: "bvurem", OpNeg: "bvneg", OpBAnd: "bvand", OpBOr: "bvor",
	OpBXor: "bvxor", OpBNot: "bvnot", OpShl: "bvshl", OpLShr: "bvlshr", OpAShr: "bvashr",
	OpUlt: "bvult", OpUle: "bvule", OpSlt: "bvslt", OpSle: "bvsle",
	OpFAdd: "fp.add RNE", OpFSub: "fp.sub RNE", OpFMul: "fp.mul RNE", OpFDiv: "fp.div RNE",
	OpFNeg: "fp.neg", OpFAbs: "fp.abs", OpFSqrt: "fp.sqrt RNE", OpFLt: "fp.lt", OpFLe: "fp.leq", OpFEq: "fp.eq",
	OpFIsNaN: "fp.isNaN",
}

type Term struct {
	op   Op
	sort Sort
	val  uint64 // OpConst: value (bool 0/1, bv masked, fp bits)
	name string // OpVar
	a    []*Term
	id   int
	vs   []uint64 // sorted set of possible values (nil = unknown); BV sorts only
	fp   bool     // contains floating-point subterm
	fv   []*Term  // free variables (computed lazily)
	fvOK bool
}

// freeVars returns the variables occurring in t (shared slice; do not modify).
func (t *Term) freeVars() []*Term {
	if t.fvOK {
		return t.fv
	}
	switch t.op {
	case OpConst:
	case OpVar:
		t.fv = []*Term{t}
	default:
		var acc []*Term
		for _, a := range t.a {
			for _, v := range a.freeVars() {
				dup := false
				for _, w := range acc {
					if w == v {
						dup = true
						break
					}
				}
				if !dup {
					acc = append(acc, v)
				}
			}
		}
		t.fv = acc
	}
	t.fvOK = true
	return t.fv
}

type tkey struct {
	op         Op
	sort       Sort
	val        uint64
	name       string
	a0, a1, a2 int
}

type TermTable struct {
	m     map[tkey]*Term
	next  int
	vars  map[string]*Term
	stats struct{ created int }
}

var tt = newTermTable()

func newTermTable() *TermTable {
	return &TermTable{m: make(map[tkey]*Term), vars: make(map[string]*Term), next: 1}
}

const maxVS = 64

func (tb *TermTable) mk(op Op, s Sort, val uint64, name string, a ...*Term) *Term {
	k := tkey{op: op, sort: s, val: val, name: name}
	if len(a) > 0 {
		k.a0 = a[0].id
	}
	if len(a) > 1 {
		k.a1 = a[1].id
	}
	if len(a) > 2 {
		k.a2 = a[2].id
	}
	if t, ok := tb.m[k]; ok {
		return t
	}
	t := &Term{op: op, sort: s, val: val, name: name, a: a, id: tb.next}
	tb.next++
	tb.stats.created++
	for _, x := range a {
		if x.fp {
			t.fp = true
		}
	}
	if s == SFP64 {
		t.fp = true
	}
	tb.m[k] = t
	return t
}

func mask(s Sort, v uint64) uint64 {
	w := s.width()
	if w >= 64 {
		return v
	}
	return v & ((1 << w) - 1)
}

func sx(s Sort, v uint64) int64 {
	w := s.width()
	if w >= 64 {
		return int64(v)
	}
	sh := 64 - w
	return int64(v<<sh) >> sh
}

func mkConst(s Sort, v uint64) *Term {
	if s != SFP64 {
		v = mask(s, v)
	}
	t := tt.mk(OpConst, s, v, "")
	if s != SBool && s != SFP64 && t.vs == nil {
		t.vs = []uint64{v}
	}
	return t
}

func mkBool(b bool) *Term {
	if b {
		return tTrue
	}
	return tFalse
}

var tTrue, tFalse *Term

func init() { resetTerms() }

func resetTerms() {
	tt = newTermTable()
	tTrue = tt.mk(OpConst, SBool, 1, "")
	tFalse = tt.mk(OpConst, SBool, 0, "")
}

// mkVar creates (or returns) the named variable; vs optionally restricts its values.
func mkVar(name string, s Sort, vs []uint64) *Term {
	// the same tag may be used with different alphabets on different paths of an instance:
	// such variables are distinct
	if vs != nil && len(vs) <= maxVS {
		sig := uint64(1469598103934665603)
		for _, v := range vs {
			sig = (sig ^ v) * 1099511628211
		}
		name = fmt.Sprintf("%s~%x", name, sig&0xffffff)
	}
	name = fmt.Sprintf("%s:%d", name, s)
	if t, ok := tt.vars[name]; ok {
		return t
	}
	t := tt.mk(OpVar, s, 0, name)
	if vs != nil && len(vs) <= maxVS {
		t.vs = append([]uint64(nil), vs...)
		sort.Slice(t.vs, func(i, j int) bool { return t.vs[i] < t.vs[j] })
	}
	tt.vars[name] = t
	return t
}

func (t *Term) isConst() bool { return t.op == OpConst }
func (t *Term) isTrue() bool  { return t == tTrue }
func (t *Term) isFalse() bool { return t == tFalse }

func unionVS(a, b []uint64) []uint64 {
	if a == nil || b == nil {
		return nil
	}
	r := make([]uint64, 0, len(a)+len(b))
	i, j := 0, 0
	for i < len(a) || j < len(b) {
		switch {
		case j >= len(b) || (i < len(a) && a[i] < b[j]):
			r = append(r, a[i])
			i++
		case i >= len(a) || b[j] < a[i]:
			r = append(r, b[j])
			j++
		default:
			r = append(r, a[i])
			i++
			j++
		}
	}
	if len(r) > maxVS {
		return nil
	}
	return r
}

func mapVS(a []uint64, f func(uint64) uint64) []uint64 {
	if a == nil {
		return nil
	}
	r := make([]uint64, len(a))
	for i, v := range a {
		r[i] = f(v)
	}
	sort.Slice(r, func(i, j int) bool { return r[i] < r[j] })
	o := r[:0]
	for i, v := range r {
		if i == 0 || v != r[i-1] {
			o = append(o, v)
		}
	}
	return o
}

// ---------------------------------------------------------------- Boolean

func mkNot(x *Term) *Term {
	switch {
	case x.isTrue():
		return tFalse
	case x.isFalse():
		return tTrue
	case x.op == OpNot:
		return x.a[0]
	}
	return tt.mk(OpNot, SBool, 0, "", x)
}

func mkAnd(x, y *Term) *Term {
	switch {
	case x.isFalse() || y.isFalse():
		return tFalse
	case x.isTrue():
		return y
	case y.isTrue():
		return x
	case x == y:
		return x
	case (x.op == OpNot && x.a[0] == y) || (y.op == OpNot && y.a[0] == x):
		return tFalse
	}
	if x.id > y.id {
		x, y = y, x
	}
	return tt.mk(OpAnd, SBool, 0, "", x, y)
}

func mkOr(x, y *Term) *Term {
	switch {
	case x.isTrue() || y.isTrue():
		return tTrue
	case x.isFalse():
		return y
	case y.isFalse():
		return x
	case x == y:
		return x
	case (x.op == OpNot && x.a[0] == y) || (y.op == OpNot && y.a[0] == x):
		return tTrue
	}
	if x.id > y.id {
		x, y = y, x
	}
	return tt.mk(OpOr, SBool, 0, "", x, y)
}

func mkAndN(xs ...*Term) *Term {
	r := tTrue
	for _, x := range xs {
		r = mkAnd(r, x)
	}
	return r
}

func mkOrN(xs ...*Term) *Term {
	r := tFalse
	for _, x := range xs {
		r = mkOr(r, x)
	}
	return r
}

func mkImplies(x, y *Term) *Term { return mkOr(mkNot(x), y) }

func mkIte(c, x, y *Term) *Term {
	if x.sort != y.sort {
		panic(fmt.Sprintf("mkIte: sorts differ %v %v", x.sort, y.sort))
	}
	switch {
	case c.isTrue():
		return x
	case c.isFalse():
		return y
	case x == y:
		return x
	}
	if c.op == OpNot {
		return mkIte(c.a[0], y, x)
	}
	if x.sort == SBool {
		switch {
		case x.isTrue() && y.isFalse():
			return c
		case x.isFalse() && y.isTrue():
			return mkNot(c)
		case x.isTrue():
			return mkOr(c, y)
		case x.isFalse():
			return mkAnd(mkNot(c), y)
		case y.isTrue():
			return mkOr(mkNot(c), x)
		case y.isFalse():
			return mkAnd(c, x)
		}
	}
	// ite(c, x, ite(c, _, z)) -> ite(c, x, z)
	if y.op == OpIte && y.a[0] == c {
		return mkIte(c, x, y.a[2])
	}
	if x.op == OpIte && x.a[0] == c {
		return mkIte(c, x.a[1], y)
	}
	if x.sort != SBool && x.sort != SFP64 {
		if u := unionVS(x.vs, y.vs); len(u) == 1 {
			return mkConst(x.sort, u[0])
		}
	}
	t := tt.mk(OpIte, x.sort, 0, "", c, x, y)
	if t.vs == nil && x.sort != SBool && x.sort != SFP64 {
		t.vs = unionVS(x.vs, y.vs)
	}
	return t
}

// iteOfConsts reports whether t is a (shallow) ITE tree whose leaves are all constants.
func iteOfConsts(t *Term, depth int) bool {
	if t.op == OpConst {
		return true
	}
	if t.op == OpIte && depth > 0 {
		return iteOfConsts(t.a[1], depth-1) && iteOfConsts(t.a[2], depth-1)
	}
	return false
}

// liftCmp pushes a comparison against a constant through an ITE tree of constants.
func liftCmp(t *Term, f func(leaf *Term) *Term) *Term {
	if t.op == OpIte {
		return mkIte(t.a[0], liftCmp(t.a[1], f), liftCmp(t.a[2], f))
	}
	return f(t)
}

func mkEq(x, y *Term) *Term {
	if x.sort != y.sort {
		panic(fmt.Sprintf("mkEq: sorts differ %v %v (%s, %s)", x.sort, y.sort, x, y))
	}
	if x == y {
		if x.sort == SFP64 {
			// structural equality on FP is not Go ==; callers use mkFCmp
		}
		return tTrue
	}
	if x.isConst() && y.isConst() {
		return mkBool(x.val == y.val)
	}
	if x.sort == SBool {
		switch {
		case x.isTrue():
			return y
		case x.isFalse():
			return mkNot(y)
		case y.isTrue():
			return x
		case y.isFalse():
			return mkNot(x)
		}
	} else if x.sort != SFP64 {
		if x.vs != nil && y.vs != nil && disjointVS(x.vs, y.vs) {
			return tFalse
		}
		if y.isConst() && x.op == OpIte && iteOfConsts(x, 6) {
			return liftCmp(x, func(l *Term) *Term { return mkEq(l, y) })
		}
		if x.isConst() && y.op == OpIte && iteOfConsts(y, 6) {
			return liftCmp(y, func(l *Term) *Term { return mkEq(x, l) })
		}
		// zext(a) == const
		if y.isConst() && (x.op == OpZext) {
			a := x.a[0]
			if y.val>>a.sort.width() != 0 {
				return tFalse
			}
			return mkEq(a, mkConst(a.sort, y.val))
		}
		if x.isConst() && (y.op == OpZext) {
			return mkEq(y, x)
		}
		if x.op == OpZext && y.op == OpZext && x.a[0].sort == y.a[0].sort {
			return mkEq(x.a[0], y.a[0])
		}
	}
	if x.id > y.id {
		x, y = y, x
	}
	return tt.mk(OpEq, SBool, 0, "", x, y)
}

func disjointVS(a, b []uint64) bool {
	i, j := 0, 0
	for i < len(a) && j < len(b) {
		switch {
		case a[i] < b[j]:
			i++
		case a[i] > b[j]:
			j++
		default:
			return false
		}
	}
	return true
}

// ---------------------------------------------------------------- bit-vectors

func evalBin(op Op, s Sort, x, y uint64) (uint64, bool) {
	w := s.width()
	switch op {
	case OpAdd:
		return mask(s, x+y), true
	case OpSub:
		return mask(s, x-y), true
	case OpMul:
		return mask(s, x*y), true
	case OpUDiv:
		if y == 0 {
			return mask(s, ^uint64(0)), true
		}
		return x / y, true
	case OpURem:
		if y == 0 {
			return x, true
		}
		return x % y, true
	case OpSDiv:
		if y == 0 {
			if sx(s, x) >= 0 {
				return mask(s, ^uint64(0)), true
			}
			return 1, true
		}
		a, b := sx(s, x), sx(s, y)
		if b == -1 {
			return mask(s, uint64(-a)), true
		}
		return mask(s, uint64(a/b)), true
	case OpSRem:
		if y == 0 {
			return x, true
		}
		a, b := sx(s, x), sx(s, y)
		if b == -1 {
			return 0, true
		}
		return mask(s, uint64(a%b)), true
	case OpBAnd:
		return x & y, true
	case OpBOr:
		return x | y, true
	case OpBXor:
		return x ^ y, true
	case OpShl:
		if y >= uint64(w) {
			return 0, true
		}
		return mask(s, x<<y), true
	case OpLShr:
		if y >= uint64(w) {
			return 0, true
		}
		return x >> y, true
	case OpAShr:
		if y >= uint64(w) {
			y = uint64(w) - 1
		}
		return mask(s, uint64(sx(s, x)>>y)), true
	}
	return 0, false
}

func evalCmp(op Op, s Sort, x, y uint64) bool {
	switch op {
	case OpUlt:
		return x < y
	case OpUle:
		return x <= y
	case OpSlt:
		return sx(s, x) < sx(s, y)
	case OpSle:
		return sx(s, x) <= sx(s, y)
	case OpEq:
		return x == y
	}
	panic("evalCmp")
}

func mkBin(op Op, x, y *Term) *Term {
	if x.sort != y.sort {
		panic(fmt.Sprintf("mkBin %v: sorts differ %v %v", op, x.sort, y.sort))
	}
	s := x.sort
	if x.isConst() && y.isConst() {
		v, ok := evalBin(op, s, x.val, y.val)
		if ok {
			return mkConst(s, v)
		}
	}
	switch op {
	case OpAdd:
		if x.isConst() && x.val == 0 {
			return y
		}
		if y.isConst() && y.val == 0 {
			return x
		}
		if x.isConst() {
			x, y = y, x
		}
		// (a + c1) + c2
		if y.isConst() && x.op == OpAdd && x.a[1].isConst() {
			return mkBin(OpAdd, x.a[0], mkConst(s, x.a[1].val+y.val))
		}
	case OpSub:
		if y.isConst() && y.val == 0 {
			return x
		}
		if x == y {
			return mkConst(s, 0)
		}
		if y.isConst() {
			return mkBin(OpAdd, x, mkConst(s, -y.val))
		}
	case OpMul:
		if x.isConst() {
			x, y = y, x
		}
		if y.isConst() {
			switch y.val {
			case 0:
				return y
			case 1:
				return x
			}
		}
	case OpBAnd:
		if x.isConst() {
			x, y = y, x
		}
		if y.isConst() {
			if y.val == 0 {
				return y
			}
			if y.val == mask(s, ^uint64(0)) {
				return x
			}
		}
		if x == y {
			return x
		}
	case OpBOr, OpBXor:
		if x.isConst() {
			x, y = y, x
		}
		if y.isConst() && y.val == 0 {
			return x
		}
	case OpSDiv, OpUDiv:
		if y.isConst() && y.val == 1 {
			return x
		}
	case OpShl, OpLShr, OpAShr:
		if y.isConst() && y.val == 0 {
			return x
		}
	}
	// push through ITE trees of constants when the other side is constant
	if y.isConst() && x.op == OpIte && iteOfConsts(x, 6) {
		return liftBin(x, func(l *Term) *Term { return mkBin(op, l, y) })
	}
	if x.isConst() && y.op == OpIte && iteOfConsts(y, 6) {
		return liftBin(y, func(l *Term) *Term { return mkBin(op, x, l) })
	}
	t := tt.mk(op, s, 0, "", x, y)
	if t.vs == nil && y.isConst() && x.vs != nil {
		c := y.val
		t.vs = mapVS(x.vs, func(v uint64) uint64 { r, _ := evalBin(op, s, v, c); return r })
	}
	return t
}

func liftBin(t *Term, f func(leaf *Term) *Term) *Term {
	if t.op == OpIte {
		return mkIte(t.a[0], liftBin(t.a[1], f), liftBin(t.a[2], f))
	}
	return f(t)
}

func mkNeg(x *Term) *Term {
	if x.isConst() {
		return mkConst(x.sort, -x.val)
	}
	return tt.mk(OpNeg, x.sort, 0, "", x)
}

func mkBNot(x *Term) *Term {
	if x.isConst() {
		return mkConst(x.sort, ^x.val)
	}
	return tt.mk(OpBNot, x.sort, 0, "", x)
}

func mkCmp(op Op, x, y *Term) *Term {
	if x.sort != y.sort {
		panic(fmt.Sprintf("mkCmp %v: sorts differ %v %v", op, x.sort, y.sort))
	}
	s := x.sort
	if x.isConst() && y.isConst() {
		return mkBool(evalCmp(op, s, x.val, y.val))
	}
	if x == y {
		return mkBool(op == OpUle || op == OpSle)
	}
	if x.vs != nil && y.vs != nil && len(x.vs)*len(y.vs) <= 4096 {
		allT, allF := true, true
		for _, a := range x.vs {
			for _, b := range y.vs {
				if evalCmp(op, s, a, b) {
					allF = false
				} else {
					allT = false
				}
			}
		}
		if allT {
			return tTrue
		}
		if allF {
			return tFalse
		}
	}
	if y.isConst() && x.op == OpIte && iteOfConsts(x, 6) {
		return liftCmp(x, func(l *Term) *Term { return mkCmp(op, l, y) })
	}
	if x.isConst() && y.op == OpIte && iteOfConsts(y, 6) {
		return liftCmp(y, func(l *Term) *Term { return mkCmp(op, x, l) })
	}
	// unsigned comparisons of zero-extended operands
	if x.op == OpZext && y.op == OpZext && x.a[0].sort == y.a[0].sort {
		switch op {
		case OpUlt, OpSlt:
			return mkCmp(OpUlt, x.a[0], y.a[0])
		case OpUle, OpSle:
			return mkCmp(OpUle, x.a[0], y.a[0])
		}
	}
	if x.op == OpZext && y.isConst() {
		in := x.a[0].sort
		signed := op == OpSlt || op == OpSle
		uop := op
		if op == OpSlt {
			uop = OpUlt
		} else if op == OpSle {
			uop = OpUle
		}
		if signed && sx(s, y.val) < 0 {
			return tFalse
		}
		if y.val>>in.width() == 0 {
			return mkCmp(uop, x.a[0], mkConst(in, y.val))
		}
		return tTrue
	}
	if y.op == OpZext && x.isConst() {
		in := y.a[0].sort
		signed := op == OpSlt || op == OpSle
		uop := op
		if op == OpSlt {
			uop = OpUlt
		} else if op == OpSle {
			uop = OpUle
		}
		if signed && sx(s, x.val) < 0 {
			return tTrue
		}
		if x.val>>in.width() == 0 {
			return mkCmp(uop, mkConst(in, x.val), y.a[0])
		}
		return tFalse
	}
	return tt.mk(op, SBool, 0, "", x, y)
}

func mkZext(x *Term, to Sort) *Term {
	if x.sort == to {
		return x
	}
	if x.isConst() {
		return mkConst(to, x.val)
	}
	if x.op == OpIte && iteOfConsts(x, 6) {
		return liftBin(x, func(l *Term) *Term { return mkZext(l, to) })
	}
	if x.op == OpZext {
		return mkZext(x.a[0], to)
	}
	t := tt.mk(OpZext, to, 0, "", x)
	if t.vs == nil {
		t.vs = x.vs
	}
	return t
}

func mkSext(x *Term, to Sort) *Term {
	if x.sort == to {
		return x
	}
	if x.isConst() {
		return mkConst(to, uint64(sx(x.sort, x.val)))
	}
	if x.op == OpIte && iteOfConsts(x, 6) {
		return liftBin(x, func(l *Term) *Term { return mkSext(l, to) })
	}
	if x.op == OpZext {
		return mkZext(x.a[0], to)
	}
	t := tt.mk(OpSext, to, 0, "", x)
	if t.vs == nil && x.vs != nil {
		s := x.sort
		t.vs = mapVS(x.vs, func(v uint64) uint64 { return mask(to, uint64(sx(s, v))) })
	}
	return t
}

func mkTrunc(x *Term, to Sort) *Term {
	if x.sort == to {
		return x
	}
	if x.isConst() {
		return mkConst(to, x.val)
	}
	if (x.op == OpZext || x.op == OpSext) && x.a[0].sort == to {
		return x.a[0]
	}
	if (x.op == OpZext || x.op == OpSext) && x.a[0].sort.width() < to.width() {
		if x.op == OpZext {
			return mkZext(x.a[0], to)
		}
		return mkSext(x.a[0], to)
	}
	if x.op == OpIte && iteOfConsts(x, 6) {
		return liftBin(x, func(l *Term) *Term { return mkTrunc(l, to) })
	}
	t := tt.mk(OpTrunc, to, 0, "", x)
	if t.vs == nil && x.vs != nil {
		t.vs = mapVS(x.vs, func(v uint64) uint64 { return mask(to, v) })
	}
	return t
}

// ---------------------------------------------------------------- floating point

func mkFConst(f float64) *Term { return mkConst(SFP64, math.Float64bits(f)) }

func (t *Term) fval() float64 { return math.Float64frombits(t.val) }

func mkFBin(op Op, x, y *Term) *Term {
	if x.isConst() && y.isConst() {
		a, b := x.fval(), y.fval()
		switch op {
		case OpFAdd:
			return mkFConst(a + b)
		case OpFSub:
			return mkFConst(a - b)
		case OpFMul:
			return mkFConst(a * b)
		case OpFDiv:
			return mkFConst(a / b)
		}
	}
	if x.op == OpIte && iteOfConsts(x, 6) && (y.isConst() || (y.op == OpIte && iteOfConsts(y, 6))) {
		return liftBin(x, func(l *Term) *Term { return mkFBin(op, l, y) })
	}
	if y.op == OpIte && iteOfConsts(y, 6) && x.isConst() {
		return liftBin(y, func(l *Term) *Term { return mkFBin(op, x, l) })
	}
	return tt.mk(op, SFP64, 0, "", x, y)
}

func mkFUn(op Op, x *Term) *Term {
	if x.isConst() {
		a := x.fval()
		switch op {
		case OpFNeg:
			return mkFConst(-a)
		case OpFAbs:
			return mkFConst(math.Abs(a))
		case OpFSqrt:
			return mkFConst(math.Sqrt(a))
		}
	}
	if x.op == OpIte && iteOfConsts(x, 6) {
		return liftBin(x, func(l *Term) *Term { return mkFUn(op, l) })
	}
	return tt.mk(op, SFP64, 0, "", x)
}

func mkFCmp(op Op, x, y *Term) *Term {
	if x.isConst() && y.isConst() {
		a, b := x.fval(), y.fval()
		switch op {
		case OpFLt:
			return mkBool(a < b)
		case OpFLe:
			return mkBool(a <= b)
		case OpFEq:
			return mkBool(a == b)
		}
	}
	if x.op == OpIte && y.isConst() && iteOfFConsts(x, 6) {
		return liftCmp(x, func(l *Term) *Term { return mkFCmp(op, l, y) })
	}
	if y.op == OpIte && x.isConst() && iteOfFConsts(y, 6) {
		return liftCmp(y, func(l *Term) *Term { return mkFCmp(op, x, l) })
	}
	if x.op == OpIte && y.op == OpIte && iteOfConsts(x, 6) && iteOfConsts(y, 6) {
		return liftCmp(x, func(l *Term) *Term { return mkFCmp(op, l, y) })
	}
	return tt.mk(op, SBool, 0, "", x, y)
}

func iteOfFConsts(t *Term, d int) bool { return iteOfConsts(t, d) }

func mkSIToFP(x *Term) *Term {
	if x.isConst() {
		return mkFConst(float64(sx(x.sort, x.val)))
	}
	if x.op == OpIte && iteOfConsts(x, 6) {
		return liftBin(x, mkSIToFP)
	}
	if x.vs != nil && len(x.vs) <= 16 {
		// small value set: an ITE chain of constants keeps floating point out of the solver
		r := mkFConst(float64(sx(x.sort, x.vs[len(x.vs)-1])))
		for i := len(x.vs) - 2; i >= 0; i-- {
			r = mkIte(mkEq(x, mkConst(x.sort, x.vs[i])), mkFConst(float64(sx(x.sort, x.vs[i]))), r)
		}
		return r
	}
	return tt.mk(OpSIToFP, SFP64, 0, "", x)
}

func mkUIToFP(x *Term) *Term {
	if x.isConst() {
		return mkFConst(float64(x.val))
	}
	return tt.mk(OpUIToFP, SFP64, 0, "", x)
}

func mkFPToSI(x *Term, to Sort) *Term {
	if x.isConst() {
		return mkConst(to, uint64(int64(x.fval())))
	}
	if x.op == OpIte && iteOfConsts(x, 6) {
		return liftBin(x, func(l *Term) *Term { return mkFPToSI(l, to) })
	}
	return tt.mk(OpFPToSI, to, 0, "", x)
}

func mkFIsNaN(x *Term) *Term {
	if x.isConst() {
		return mkBool(math.IsNaN(x.fval()))
	}
	return tt.mk(OpFIsNaN, SBool, 0, "", x)
}

// ---------------------------------------------------------------- printing

func (t *Term) constSMT() string {
	switch t.sort {
	case SBool:
		if t.val != 0 {
			return "true"
		}
		return "false"
	case SFP64:
		b := t.val
		return fmt.Sprintf("(fp #b%01b #b%011b #b%052b)", b>>63, (b>>52)&0x7ff, b&((1<<52)-1))
	}
	w := t.sort.width()
	return fmt.Sprintf("#x%0*x", int(w/4), t.val)
}

// ref is how a term is referred to inside other terms.
func (t *Term) ref() string {
	switch t.op {
	case OpConst:
		return t.constSMT()
	case OpVar:
		return "|" + t.name + "|"
	}
	return fmt.Sprintf("t%d", t.id)
}

// body is the defining expression of a non-leaf term, in terms of its children's refs.
func (t *Term) body() string {
	var sb strings.Builder
	switch t.op {
	case OpZext:
		fmt.Fprintf(&sb, "((_ zero_extend %d) %s)", t.sort.width()-t.a[0].sort.width(), t.a[0].ref())
	case OpSext:
		fmt.Fprintf(&sb, "((_ sign_extend %d) %s)", t.sort.width()-t.a[0].sort.width(), t.a[0].ref())
	case OpTrunc:
		fmt.Fprintf(&sb, "((_ extract %d 0) %s)", t.sort.width()-1, t.a[0].ref())
	case OpSIToFP:
		fmt.Fprintf(&sb, "((_ to_fp 11 53) RNE %s)", t.a[0].ref())
	case OpUIToFP:
		fmt.Fprintf(&sb, "((_ to_fp_unsigned 11 53) RNE %s)", t.a[0].ref())
	case OpFPToSI:
		fmt.Fprintf(&sb, "((_ fp.to_sbv %d) RTZ %s)", t.sort.width(), t.a[0].ref())
	default:
		sb.WriteString("(")
		sb.WriteString(opSMT[t.op])
		for _, x := range t.a {
			sb.WriteString(" ")
			sb.WriteString(x.ref())
		}
		sb.WriteString(")")
	}
	return sb.String()
}

// String renders the term as a tree (debugging / evidence samples).
func (t *Term) String() string {
	var sb strings.Builder
	t.write(&sb, 0)
	return sb.String()
}

func (t *Term) write(sb *strings.Builder, d int) {
	if d > 12 {
		sb.WriteString("…")
		return
	}
	switch t.op {
	case OpConst:
		sb.WriteString(t.constSMT())
	case OpVar:
		sb.WriteString(t.name)
	default:
		sb.WriteString("(")
		if s, ok := opSMT[t.op]; ok {
			sb.WriteString(s)
		} else {
			fmt.Fprintf(sb, "op%d", t.op)
		}
		for _, x := range t.a {
			sb.WriteString(" ")
			x.write(sb, d+1)
		}
		sb.WriteString(")")
	}
}

// eval evaluates a term under an assignment of variables (used to validate models cheaply).
func (t *Term) eval(env map[string]uint64, memo map[int]uint64) uint64 {
	if t.op == OpConst {
		return t.val
	}
	if v, ok := memo[t.id]; ok {
		return v
	}
	var r uint64
	b2u := func(b bool) uint64 {
		if b {
			return 1
		}
		return 0
	}
	arg := func(i int) uint64 { return t.a[i].eval(env, memo) }
	switch t.op {
	case OpVar:
		r = env[t.name]
	case OpNot:
		r = 1 - arg(0)
	case OpAnd:
		r = arg(0) & arg(1)
	case OpOr:
		r = arg(0) | arg(1)
	case OpEq:
		r = b2u(arg(0) == arg(1))
	case OpIte:
		if arg(0) != 0 {
			r = arg(1)
		} else {
			r = arg(2)
		}
	case OpNeg:
		r = mask(t.sort, -arg(0))
	case OpBNot:
		r = mask(t.sort, ^arg(0))
	case OpUlt, OpUle, OpSlt, OpSle:
		r = b2u(evalCmp(t.op, t.a[0].sort, arg(0), arg(1)))
	case OpZext:
		r = arg(0)
	case OpSext:
		r = mask(t.sort, uint64(sx(t.a[0].sort, arg(0))))
	case OpTrunc:
		r = mask(t.sort, arg(0))
	case OpFAdd, OpFSub, OpFMul, OpFDiv:
		a, b := math.Float64frombits(arg(0)), math.Float64frombits(arg(1))
		var f float64
		switch t.op {
		case OpFAdd:
			f = a + b
		case OpFSub:
			f = a - b
		case OpFMul:
			f = a * b
		case OpFDiv:
			f = a / b
		}
		r = math.Float64bits(f)
	case OpFNeg:
		r = math.Float64bits(-math.Float64frombits(arg(0)))
	case OpFAbs:
		r = math.Float64bits(math.Abs(math.Float64frombits(arg(0))))
	case OpFSqrt:
		r = math.Float64bits(math.Sqrt(math.Float64frombits(arg(0))))
	case OpFLt:
		r = b2u(math.Float64frombits(arg(0)) < math.Float64frombits(arg(1)))
	case OpFLe:
		r = b2u(math.Float64frombits(arg(0)) <= math.Float64frombits(arg(1)))
	case OpFEq:
		r = b2u(math.Float64frombits(arg(0)) == math.Float64frombits(arg(1)))
	case OpFIsNaN:
		r = b2u(math.IsNaN(math.Float64frombits(arg(0))))
	case OpSIToFP:
		r = math.Float64bits(float64(sx(t.a[0].sort, arg(0))))
	case OpUIToFP:
		r = math.Float64bits(float64(arg(0)))
	case OpFPToSI:
		r = mask(t.sort, uint64(int64(math.Float64frombits(arg(0)))))
	default:
		v, ok := evalBin(t.op, t.sort, arg(0), arg(1))
		if !ok {
			panic(fmt.Sprintf("eval: op %d", t.op))
		}
		r = v
	}
	memo[t.id] = r
	return r
}

var _ = bits.Len
