package main

// Harness intrinsics (vNondet*, vAssume, vAssert …) and models of library functions.

import (
	"bytes"
	"encoding/json"
	"fmt"
	"go/token"
	"go/types"
	"math"
	"os"
	"regexp"
	"sort"
	"strconv"
	"strings"
	"unicode"

	"golang.org/x/tools/go/ssa"
)

type intrinsic func(fr *frame, args []value) value

var intrinsics = map[string]intrinsic{}

const harnessPkg = "github.com/c4pt0r/kvql."

func init() {
	h := func(name string, f intrinsic) { intrinsics[harnessPkg+name] = f }
	h("vNondetByte", inNondetByte)
	h("vNondetInt", inNondetInt)
	h("vNondetInt64", inNondetInt64)
	h("vNondetBool", inNondetBool)
	h("vNondetBytes", inNondetBytes)
	h("vNondetString", inNondetString)
	h("vNondetFloatPool", inNondetFloatPool)
	h("vChoose", inChoose)
	h("vAssume", inAssume)
	h("vAssert", inAssert)
	h("vCover", inCover)
	h("vKnown", inKnown)
	h("vLog", inLog)
	h("vIsReplay", func(fr *frame, a []value) value { return false })
	h("vTry", inTry)
	h("vConcretize", inConcretize)
	h("vSharedWrites", inSharedWrites)
	h("vMarkShared", inMarkShared)
	h("vReverseMaps", func(fr *frame, a []value) value { I.reverseMaps = a[0].(bool); return nil })
	h("vAnd", func(fr *frame, a []value) value { return boolVal(mkAnd(toBoolTerm(a[0]), toBoolTerm(a[1]))) })
	h("vOr", func(fr *frame, a []value) value { return boolVal(mkOr(toBoolTerm(a[0]), toBoolTerm(a[1]))) })
	h("vNot", func(fr *frame, a []value) value { return boolVal(mkNot(toBoolTerm(a[0]))) })
	h("vImplies", func(fr *frame, a []value) value { return boolVal(mkImplies(toBoolTerm(a[0]), toBoolTerm(a[1]))) })
	h("vIteInt", func(fr *frame, a []value) value {
		return fromTerm(mkIte(toBoolTerm(a[0]), toTerm(a[1]), toTerm(a[2])), types.Int)
	})
	h("vIteByte", func(fr *frame, a []value) value {
		return fromTerm(mkIte(toBoolTerm(a[0]), toTerm(a[1]), toTerm(a[2])), types.Uint8)
	})
	h("vFreeParseFloat", func(fr *frame, a []value) value { I.freeParseFloat = a[0].(bool); return nil })
	h("vLazyFormat", func(fr *frame, a []value) value { I.lazyFormat = a[0].(bool); return nil })
	h("vAllowSymMul", func(fr *frame, a []value) value { I.allowSymMul = a[0].(bool); return nil })

	l := func(name string, f intrinsic) { intrinsics[name] = f }
	l("bytes.Compare", inBytesCompare)
	l("bytes.Equal", inBytesEqual)
	l("bytes.HasPrefix", inBytesHasPrefix)
	l("strings.HasPrefix", inStringsHasPrefix)
	l("strings.ToLower", func(fr *frame, a []value) value { return caseMap(a[0], false) })
	l("strings.ToUpper", func(fr *frame, a []value) value { return caseMap(a[0], true) })
	l("strings.TrimSpace", inTrimSpace)
	l("strings.Join", inStringsJoin)
	l("strings.Split", inStringsSplit)
	l("strings.Index", func(fr *frame, a []value) value {
		s, ok1 := a[0].(string)
		sub, ok2 := a[1].(string)
		if ok1 && ok2 {
			checkLazy(s)
			return strings.Index(s, sub)
		}
		// symbolic content: first offset at which the needle matches (each offset is a fork)
		sb, nb := strBytes(a[0]), strBytes(a[1])
		for i := 0; i+len(nb) <= len(sb); i++ {
			if I.x.branch(bytesEqTerm(sb[i:i+len(nb)], nb)) {
				return i
			}
		}
		return -1
	})
	l("strings.Contains", func(fr *frame, a []value) value {
		s, ok1 := a[0].(string)
		sub, ok2 := a[1].(string)
		if ok1 && ok2 {
			checkLazy(s)
			return strings.Contains(s, sub)
		}
		sb, nb := strBytes(a[0]), strBytes(a[1])
		r := tFalse
		for i := 0; i+len(nb) <= len(sb); i++ {
			r = mkOr(r, bytesEqTerm(sb[i:i+len(nb)], nb))
		}
		return boolVal(r)
	})
	l("strings.Compare", func(fr *frame, a []value) value { return intVal(bytesCmpTerm(strBytes(a[0]), strBytes(a[1]))) })
	l("strconv.ParseInt", inParseInt)
	l("strconv.ParseFloat", inParseFloat)
	l("strconv.Itoa", func(fr *frame, a []value) value { return sprintf("%d", []value{iface{types.Typ[types.Int], a[0]}}) })
	l("strconv.FormatFloat", func(fr *frame, a []value) value {
		f, ok1 := a[0].(float64)
		if t, isTerm := a[0].(*Term); isTerm && t.sort == SFP64 {
			// a symbolic float that is rendered: enumerate its values (each a fork); they come
			// from small value sets wherever the harnesses let a float reach a rendering
			f, ok1 = math.Float64frombits(I.x.concretize(t, "FormatFloat")), true
		}
		fmtc, ok2 := a[1].(uint8)
		prec, ok3 := a[2].(int)
		bits, ok4 := a[3].(int)
		if !(ok1 && ok2 && ok3 && ok4) {
			panic(outOfReach{"strconv.FormatFloat of a symbolic value"})
		}
		return strconv.FormatFloat(f, fmtc, prec, bits)
	})
	l("strconv.FormatInt", func(fr *frame, a []value) value {
		n, ok1 := a[0].(int64)
		base, ok2 := a[1].(int)
		if !(ok1 && ok2) {
			panic(outOfReach{"strconv.FormatInt of a symbolic value"})
		}
		return strconv.FormatInt(n, base)
	})
	l("fmt.Sprintf", func(fr *frame, a []value) value { return sprintf(concreteString(a[0]), a[1].([]value)) })
	l("fmt.Errorf", func(fr *frame, a []value) value {
		return mkError(sprintf(concreteString(a[0]), a[1].([]value)))
	})
	l("fmt.Println", func(fr *frame, a []value) value { I.stubs["fmt.Println (no output)"]++; return tuple{0, iface{}} })
	l("fmt.Printf", func(fr *frame, a []value) value { I.stubs["fmt.Printf (no output)"]++; return tuple{0, iface{}} })
	l("errors.New", func(fr *frame, a []value) value { return mkError(a[0]) })
	l("errors.Is", inErrorsIs)
	l("math.Sqrt", func(fr *frame, a []value) value {
		if t, ok := a[0].(*Term); ok {
			return fromTerm(mkFUn(OpFSqrt, t), types.Float64)
		}
		return math.Sqrt(a[0].(float64))
	})
	l("math.IsNaN", func(fr *frame, a []value) value {
		if t, ok := a[0].(*Term); ok {
			return math.IsNaN(math.Float64frombits(I.x.concretize(t, "IsNaN")))
		}
		return math.IsNaN(a[0].(float64))
	})
	l("math.IsInf", func(fr *frame, a []value) value {
		f, ok := a[0].(float64)
		if t, isTerm := a[0].(*Term); isTerm {
			f, ok = math.Float64frombits(I.x.concretize(t, "IsInf")), true
		}
		sign, ok2 := a[1].(int)
		if !ok || !ok2 {
			panic(outOfReach{"math.IsInf of a symbolic value"})
		}
		return math.IsInf(f, sign)
	})
	l("math.Abs", func(fr *frame, a []value) value {
		if t, ok := a[0].(*Term); ok {
			return fromTerm(mkFUn(OpFAbs, t), types.Float64)
		}
		return math.Abs(a[0].(float64))
	})
	// sync.Pool: Get hands out a fresh object from New (one legal behaviour of a pool: it may
	// always miss); what Put hands in becomes reachable from the pool, i.e. shared, so that a
	// later write to it by the same statement is seen by the write monitor
	l("(*sync.Pool).Get", func(fr *frame, a []value) value {
		p, ok := a[0].(*value)
		if !ok || p == nil {
			panic(outOfReach{"sync.Pool.Get on an unsupported receiver"})
		}
		st, ok := (*p).(structure)
		if !ok || len(st) < 6 {
			panic(outOfReach{"sync.Pool layout"})
		}
		switch st[5].(type) {
		case *closure, *ssa.Function:
			return call(fr, token.NoPos, st[5], nil)
		}
		return iface{}
	})
	l("(*sync.Pool).Put", func(fr *frame, a []value) value {
		if I.monitorShared && len(a) > 1 {
			markSharedFrom(a[1])
		}
		return nil
	})
	l("strings.ReplaceAll", func(fr *frame, a []value) value {
		s, ok1 := a[0].(string)
		old, ok2 := a[1].(string)
		nw, ok3 := a[2].(string)
		if ok1 && ok2 && ok3 {
			checkLazy(s)
			return strings.ReplaceAll(s, old, nw)
		}
		if !ok2 || !ok3 || len(old) == 0 {
			panic(outOfReach{"strings.ReplaceAll with a symbolic pattern"})
		}
		// symbolic text, concrete pattern: left to right, each possible match is a fork
		sb := strBytes(a[0])
		var out []value
		for i := 0; i < len(sb); {
			if i+len(old) <= len(sb) && I.x.branch(bytesEqTerm(sb[i:i+len(old)], bytesToValues([]byte(old)))) {
				out = append(out, bytesToValues([]byte(nw))...)
				i += len(old)
				continue
			}
			out = append(out, sb[i])
			i++
		}
		return mkStr(out)
	})
	// unicode predicates and mappings on concrete runes
	for name, f := range map[string]func(rune) bool{"IsLetter": unicode.IsLetter, "IsDigit": unicode.IsDigit, "IsSpace": unicode.IsSpace,
		"IsUpper": unicode.IsUpper, "IsLower": unicode.IsLower, "IsNumber": unicode.IsNumber, "IsPunct": unicode.IsPunct} {
		f := f
		name := name
		l("unicode."+name, func(fr *frame, a []value) value {
			r, ok := a[0].(int32)
			if !ok {
				panic(outOfReach{"unicode." + name + " of a symbolic rune"})
			}
			return f(r)
		})
	}
	for name, f := range map[string]func(rune) rune{"ToLower": unicode.ToLower, "ToUpper": unicode.ToUpper} {
		f := f
		name := name
		l("unicode."+name, func(fr *frame, a []value) value {
			r, ok := a[0].(int32)
			if !ok {
				panic(outOfReach{"unicode." + name + " of a symbolic rune"})
			}
			return f(r)
		})
	}
	l("os.Getenv", func(fr *frame, a []value) value { I.stubs["os.Getenv (returns \"\")"]++; return "" })
	l("sort.Strings", inSortStrings)
	l("regexp.Compile", inRegexpCompile)
	l("(*regexp.Regexp).Match", inRegexpMatch)
	l("(*regexp.Regexp).MatchString", inRegexpMatch)
	// third-party quantile sketch: the value it returns is opaque (outside every claim); what is
	// modelled is its indexing of the unflushed sample buffer, which is how a rank outside [0, 1]
	// makes the library panic
	l("github.com/beorn7/perks/quantile.NewTargeted", func(fr *frame, a []value) value {
		I.stubs["quantile sketch: opaque stub returning 0"]++
		var cell value = nativeObj{&quantileStub{}}
		return &cell
	})
	l("(*github.com/beorn7/perks/quantile.Stream).Insert", func(fr *frame, a []value) value {
		if p, ok := a[0].(*value); ok && p != nil {
			if o, ok := (*p).(nativeObj); ok {
				if q, ok := o.v.(*quantileStub); ok {
					q.n++
				}
			}
		}
		return nil
	})
	l("(*github.com/beorn7/perks/quantile.Stream).Query", func(fr *frame, a []value) value {
		n := 0
		if p, ok := a[0].(*value); ok && p != nil {
			if o, ok := (*p).(nativeObj); ok {
				if q, ok := o.v.(*quantileStub); ok {
					n = q.n
				}
			}
		}
		if q, ok := a[1].(float64); ok && n > 0 && n < 500 {
			i := int(math.Ceil(float64(n) * q))
			if i > 0 {
				i--
			}
			if i < 0 || i >= n {
				panic(rtPanic(fmt.Sprintf("runtime error: index out of range [%d] with length %d", i, n)))
			}
		}
		return float64(0)
	})
	l("encoding/json.Unmarshal", inJSONUnmarshal)
	l("encoding/json.Marshal", inJSONMarshal)
}

const lazyMarker = "\x00\x01LAZY"

// checkLazy refuses to look inside a string that contains an opaque formatted number.
func checkLazy(s string) string {
	if I != nil && I.lazyUsed && strings.Contains(s, lazyMarker) {
		panic(outOfReach{"text formatted from an unconstrained symbolic number is inspected at " + posOf(I.curFrame)})
	}
	return s
}

func concreteString(v value) string {
	switch s := v.(type) {
	case string:
		return checkLazy(s)
	case sstr:
		panic(outOfReach{"symbolic string where a concrete one is required"})
	}
	panic(fmt.Sprintf("concreteString: %T", v))
}

func alphabetVS(alpha string) []uint64 {
	if alpha == "" {
		return nil
	}
	seen := map[byte]bool{}
	var vs []uint64
	for i := 0; i < len(alpha); i++ {
		if !seen[alpha[i]] {
			seen[alpha[i]] = true
			vs = append(vs, uint64(alpha[i]))
		}
	}
	sort.Slice(vs, func(i, j int) bool { return vs[i] < vs[j] })
	return vs
}

func alphaConstraint(t *Term, vs []uint64) *Term {
	if vs == nil {
		return tTrue
	}
	// contiguous runs become range constraints
	c := tFalse
	i := 0
	for i < len(vs) {
		j := i
		for j+1 < len(vs) && vs[j+1] == vs[j]+1 {
			j++
		}
		if i == j {
			c = mkOr(c, tt.mk(OpEq, SBool, 0, "", orderPair(t, mkConst(t.sort, vs[i]))...))
		} else {
			lo := tt.mk(OpUle, SBool, 0, "", mkConst(t.sort, vs[i]), t)
			hi := tt.mk(OpUle, SBool, 0, "", t, mkConst(t.sort, vs[j]))
			c = mkOr(c, mkAnd(lo, hi))
		}
		i = j + 1
	}
	return c
}

func orderPair(a, b *Term) []*Term {
	if a.id > b.id {
		return []*Term{b, a}
	}
	return []*Term{a, b}
}

func newByte(tag, alpha string) value {
	vs := alphabetVS(alpha)
	if len(vs) == 1 {
		I.x.nd = append(I.x.nd, ndRecord{Kind: "byte", Tag: tag, Val: int64(vs[0])})
		return uint8(vs[0])
	}
	t := I.x.newVar("byte", tag, SBV8, vs)
	if vs != nil {
		c := alphaConstraint(t, vs)
		I.x.addPC(c) // satisfiable by construction; the model was extended with vs[0]
	}
	return t
}

func inNondetByte(fr *frame, a []value) value {
	return newByte(concreteString(a[0]), concreteString(a[1]))
}

func inNondetInt(fr *frame, a []value) value {
	tag := concreteString(a[0])
	lo, hi := int64(a[1].(int)), int64(a[2].(int))
	if lo > hi {
		panic(pathEnd{"vNondetInt: empty range"})
	}
	if lo == hi {
		I.x.nd = append(I.x.nd, ndRecord{Kind: "int", Tag: tag, Val: lo})
		return int(lo)
	}
	var vs []uint64
	if hi-lo < maxVS {
		for v := lo; v <= hi; v++ {
			vs = append(vs, uint64(v))
		}
		sort.Slice(vs, func(i, j int) bool { return vs[i] < vs[j] })
	}
	t := I.x.newVar("int", tag, SBV64, vs)
	if I.x.model != nil {
		I.x.model[t.name] = uint64(lo)
	}
	c := mkAnd(tt.mk(OpSle, SBool, 0, "", mkConst(SBV64, uint64(lo)), t), tt.mk(OpSle, SBool, 0, "", t, mkConst(SBV64, uint64(hi))))
	I.x.addPC(c)
	return t
}

func inNondetInt64(fr *frame, a []value) value {
	return I.x.newVar("int64", concreteString(a[0]), SBV64, nil)
}

func inNondetBool(fr *frame, a []value) value {
	return I.x.newVar("bool", concreteString(a[0]), SBool, nil)
}

func nondetBytes(a []value) []value {
	tag := concreteString(a[0])
	lo, hi := a[1].(int), a[2].(int)
	alpha := concreteString(a[3])
	n := lo
	if hi > lo {
		n = lo + I.x.choose(hi-lo+1)
	}
	I.x.nd = append(I.x.nd, ndRecord{Kind: "len", Tag: tag, Val: int64(n)})
	r := make([]value, n)
	for i := 0; i < n; i++ {
		r[i] = newByte(fmt.Sprintf("%s[%d]", tag, i), alpha)
	}
	return r
}

func inNondetBytes(fr *frame, a []value) value { return nondetBytes(a) }

func inNondetString(fr *frame, a []value) value { return mkStr(nondetBytes(a)) }

// vNondetFloatPool(tag, pool []float64) float64: a symbolic choice among exactly representable constants
func inNondetFloatPool(fr *frame, a []value) value {
	tag := concreteString(a[0])
	pool := a[1].([]value)
	if len(pool) == 0 {
		panic(pathEnd{"empty float pool"})
	}
	if len(pool) == 1 {
		I.x.nd = append(I.x.nd, ndRecord{Kind: "int", Tag: tag, Val: 0})
		return pool[0]
	}
	var vs []uint64
	for i := range pool {
		vs = append(vs, uint64(i))
	}
	idx := I.x.newVar("int", tag, SBV64, vs)
	I.x.addPC(tt.mk(OpUlt, SBool, 0, "", idx, mkConst(SBV64, uint64(len(pool)))))
	r := mkFConst(pool[len(pool)-1].(float64))
	for i := len(pool) - 2; i >= 0; i-- {
		r = mkIte(mkEq(idx, mkConst(SBV64, uint64(i))), mkFConst(pool[i].(float64)), r)
	}
	I.fpUsed = true
	return r
}

func inChoose(fr *frame, a []value) value {
	tag := concreteString(a[0])
	n := a[1].(int)
	k := I.x.choose(n)
	I.x.nd = append(I.x.nd, ndRecord{Kind: "choose", Tag: tag, Val: int64(k)})
	return k
}

func inAssume(fr *frame, a []value) value {
	switch c := a[0].(type) {
	case bool:
		if !c {
			panic(pathEnd{"assume(false)"})
		}
	case *Term:
		I.x.assume(c)
	}
	return nil
}

func inAssert(fr *frame, a []value) value {
	id := concreteString(a[1])
	x := I.x
	x.asserts++
	switch c := a[0].(type) {
	case bool:
		if !c {
			x.fail(id, "assert", "assertion is false on every input of this path", tFalse, "")
			// nothing of this path satisfies the assertion: stop here
			panic(stopPath{})
		} else {
			x.inst.Asserts++
		}
	case *Term:
		x.fail(id, "assert", "", c, "")
		x.assume(c)
	}
	return nil
}

func inCover(fr *frame, a []value) value {
	I.x.covers[concreteString(a[0])] = true
	return nil
}

func inKnown(fr *frame, a []value) value {
	id := concreteString(a[0])
	if !knownEnabled[id] && !knownEnabled["*"] {
		return nil
	}
	var c *Term
	switch v := a[1].(type) {
	case bool:
		c = mkBool(v)
	case *Term:
		c = v
	}
	if c.isFalse() {
		return nil
	}
	// merge regions with the same id
	for i := range I.x.known {
		if I.x.known[i].id == id {
			I.x.known[i].cond = mkOr(I.x.known[i].cond, c)
			return nil
		}
	}
	I.x.known = append(I.x.known, knownRegion{id, c})
	return nil
}

var knownEnabled = map[string]bool{}

func inLog(fr *frame, a []value) value {
	if debugPaths {
		fmt.Fprintf(os.Stderr, "vLog: %s\n", toString(a[0]))
	}
	return nil
}

// vConcretize(x int) int: fork over every feasible value
func inConcretize(fr *frame, a []value) value {
	if t, ok := a[0].(*Term); ok {
		return int(I.x.concretize(t, "vConcretize"))
	}
	return a[0]
}

// vTry(f func()) (msg string, panicked bool): run f, catching target-level panics.
func inTry(fr *frame, a []value) (res value) {
	depth := I.depth
	defer func() {
		if p := recover(); p != nil {
			if isEngineControl(p) {
				panic(p)
			}
			I.depth = depth
			pi, ok := p.(panicInfo)
			if !ok {
				pi = panicInfo{p: p, site: "?"}
			}
			res = tuple{pi.site + ": " + pi.message(), true}
		}
	}()
	call(fr.caller, 0, a[0], nil)
	return tuple{"", false}
}

// ---------------------------------------------------------------- bytes / strings

func inBytesCompare(fr *frame, a []value) value {
	x, y := a[0].([]value), a[1].([]value)
	if !sliceHasSym(x) && !sliceHasSym(y) {
		return bytes.Compare(concreteBytes(x), concreteBytes(y))
	}
	I.x.noteSym()
	return intVal(bytesCmpTerm(x, y))
}

func inBytesEqual(fr *frame, a []value) value {
	x, y := a[0].([]value), a[1].([]value)
	return boolVal(bytesEqTerm(x, y))
}

func inBytesHasPrefix(fr *frame, a []value) value {
	return boolVal(bytesHasPrefixTerm(a[0].([]value), a[1].([]value)))
}

func inStringsHasPrefix(fr *frame, a []value) value {
	return boolVal(bytesHasPrefixTerm(strBytes(a[0]), strBytes(a[1])))
}

func requireASCII(b *Term, what string) {
	if b.vs != nil && b.vs[len(b.vs)-1] < 0x80 {
		return
	}
	asc := mkCmp(OpUlt, b, mkConst(SBV8, 0x80))
	if !I.x.branch(asc) {
		panic(outOfReach{what + " of non-ASCII symbolic byte"})
	}
}

func caseMap(v value, upper bool) value {
	s, ok := v.(sstr)
	if !ok {
		if upper {
			return strings.ToUpper(checkLazy(v.(string)))
		}
		return strings.ToLower(checkLazy(v.(string)))
	}
	I.x.noteSym()
	r := make([]value, len(s))
	for i, b := range s {
		switch b := b.(type) {
		case uint8:
			if b >= 0x80 {
				panic(outOfReach{"case mapping of non-ASCII byte"})
			}
			if upper {
				r[i] = strings.ToUpper(string(rune(b)))[0]
			} else {
				r[i] = strings.ToLower(string(rune(b)))[0]
			}
		case *Term:
			requireASCII(b, "case mapping")
			if b.vs != nil {
				// every possible value maps to the same byte: the result is concrete
				same, first := true, byte(0)
				for j, v := range b.vs {
					var m byte
					if upper {
						m = strings.ToUpper(string(rune(v)))[0]
					} else {
						m = strings.ToLower(string(rune(v)))[0]
					}
					if j == 0 {
						first = m
					} else if m != first {
						same = false
					}
				}
				if same {
					r[i] = first
					continue
				}
			}
			var lo, hi, delta uint64 = 'A', 'Z', 32
			if upper {
				lo, hi, delta = 'a', 'z', ^uint64(31)
			}
			in := mkAnd(mkCmp(OpUle, mkConst(SBV8, lo), b), mkCmp(OpUle, b, mkConst(SBV8, hi)))
			r[i] = fromTerm(mkIte(in, mkBin(OpAdd, b, mkConst(SBV8, delta)), b), types.Uint8)
		}
	}
	return mkStr(r)
}

func isSpaceTerm(b *Term) *Term {
	// ASCII white space per unicode.IsSpace: \t \n \v \f \r ' '
	return mkOr(mkEq(b, mkConst(SBV8, ' ')), mkAnd(mkCmp(OpUle, mkConst(SBV8, 9), b), mkCmp(OpUle, b, mkConst(SBV8, 13))))
}

func inTrimSpace(fr *frame, a []value) value {
	s, ok := a[0].(sstr)
	if !ok {
		return strings.TrimSpace(checkLazy(a[0].(string)))
	}
	bs := []value(s)
	isSp := func(v value) bool {
		switch b := v.(type) {
		case uint8:
			if b >= 0x80 {
				panic(outOfReach{"TrimSpace of non-ASCII byte"})
			}
			return b == ' ' || (b >= 9 && b <= 13)
		case *Term:
			requireASCII(b, "TrimSpace")
			return I.x.branch(isSpaceTerm(b))
		}
		panic("isSp")
	}
	lo, hi := 0, len(bs)
	for lo < hi && isSp(bs[lo]) {
		lo++
	}
	for hi > lo && isSp(bs[hi-1]) {
		hi--
	}
	return mkStr(bs[lo:hi])
}

func inStringsJoin(fr *frame, a []value) value {
	elems := a[0].([]value)
	sep := strBytes(a[1])
	var r []value
	for i, e := range elems {
		if i > 0 {
			r = append(r, sep...)
		}
		r = append(r, strBytes(e)...)
	}
	return mkStr(r)
}

func inStringsSplit(fr *frame, a []value) value {
	s, sep := a[0], a[1]
	ss, sok := s.(string)
	sp, pok := sep.(string)
	if sok && pok {
		checkLazy(ss)
		parts := strings.Split(ss, sp)
		r := make([]value, len(parts))
		for i, p := range parts {
			r[i] = p
		}
		return r
	}
	sb, pb := strBytes(s), strBytes(sep)
	if len(pb) == 0 {
		// explodes into UTF-8 sequences: single bytes for ASCII text
		parts := make([]value, 0, len(sb))
		for _, b := range sb {
			if t, ok := b.(*Term); ok {
				requireASCII(t, "strings.Split")
			} else if b.(uint8) >= 0x80 {
				panic(outOfReach{"strings.Split with empty separator on non-ASCII text"})
			}
			parts = append(parts, mkStr([]value{b}))
		}
		return parts
	}
	I.x.noteSym()
	var parts []value
	start := 0
	i := 0
	for i+len(pb) <= len(sb) {
		eq := bytesEqTerm(sb[i:i+len(pb)], pb)
		if I.x.branch(eq) {
			parts = append(parts, mkStr(sb[start:i]))
			i += len(pb)
			start = i
		} else {
			i++
		}
	}
	parts = append(parts, mkStr(sb[start:]))
	return parts
}

func inSortStrings(fr *frame, a []value) value {
	xs := a[0].([]value)
	// insertion sort; comparisons on symbolic content fork
	for i := 1; i < len(xs); i++ {
		for j := i; j > 0; j-- {
			lt := bytesLtTerm(strBytes(xs[j]), strBytes(xs[j-1]))
			if !I.x.branch(lt) {
				break
			}
			xs[j], xs[j-1] = xs[j-1], xs[j]
		}
	}
	return nil
}

// ---------------------------------------------------------------- errors

var errStringPtrType types.Type

func mkError(msg value) value {
	if errStringPtrType == nil {
		p := I.prog.ImportedPackage("errors")
		if p == nil {
			panic("errors package not loaded")
		}
		errStringPtrType = types.NewPointer(p.Type("errorString").Type())
	}
	var cell value = structure{msg}
	return iface{t: errStringPtrType, v: &cell}
}

func inErrorsIs(fr *frame, a []value) value {
	err, target := a[0].(iface), a[1].(iface)
	if err.t == nil || target.t == nil {
		return err.t == nil && target.t == nil
	}
	for depth := 0; depth < 64; depth++ {
		if sameType(err.t, target.t) {
			if eq, ok := symEquals(err.t, err.v, target.v).(bool); ok && eq {
				return true
			}
		}
		// Is method?
		if m := findMethod(err.t, "Is"); m != nil {
			if r, ok := callSSA(fr.caller, 0, m, []value{err.v, target}, nil).(bool); ok && r {
				return true
			}
		}
		u := findMethod(err.t, "Unwrap")
		if u == nil {
			return false
		}
		next, ok := callSSA(fr.caller, 0, u, []value{err.v}, nil).(iface)
		if !ok || next.t == nil {
			return false
		}
		err = next
	}
	return false
}

func findMethod(t types.Type, name string) (fn *ssaFunction) {
	ms := I.prog.MethodSets.MethodSet(t)
	for i := 0; i < ms.Len(); i++ {
		sel := ms.At(i)
		if sel.Obj().Name() == name {
			return I.prog.MethodValue(sel)
		}
	}
	return nil
}

// ---------------------------------------------------------------- strconv

func digitsOnly(bs []value) *Term {
	r := tTrue
	for _, b := range bs {
		t := byteTerm(b)
		r = mkAnd(r, mkAnd(mkCmp(OpUle, mkConst(SBV8, '0'), t), mkCmp(OpUle, t, mkConst(SBV8, '9'))))
	}
	return r
}

func hornerDigits(bs []value) *Term {
	v := mkConst(SBV64, 0)
	for _, b := range bs {
		d := mkBin(OpSub, mkZext(byteTerm(b), SBV64), mkConst(SBV64, '0'))
		v = mkBin(OpAdd, mkBin(OpMul, v, mkConst(SBV64, 10)), d)
	}
	return v
}

func parseErr(fn, s string) value {
	return mkError("strconv." + fn + ": parsing " + strconv.Quote(s) + ": invalid syntax")
}

func inParseInt(fr *frame, a []value) value {
	base, bits := a[1].(int), a[2].(int)
	s, ok := a[0].(sstr)
	if !ok {
		v, err := strconv.ParseInt(checkLazy(a[0].(string)), base, bits)
		if err != nil {
			return tuple{v, mkError(err.Error())}
		}
		return tuple{v, iface{}}
	}
	if base != 10 || bits != 64 {
		panic(outOfReach{"ParseInt symbolic with base/bitSize other than 10/64"})
	}
	I.x.noteSym()
	bs := []value(s)
	neg := false
	// sign
	switch b := bs[0].(type) {
	case uint8:
		if b == '-' || b == '+' {
			neg = b == '-'
			bs = bs[1:]
		}
	case *Term:
		if I.x.branch(mkEq(b, mkConst(SBV8, '-'))) {
			neg = true
			bs = bs[1:]
		} else if I.x.branch(mkEq(b, mkConst(SBV8, '+'))) {
			bs = bs[1:]
		}
	}
	if len(bs) == 0 {
		return tuple{int64(0), parseErr("ParseInt", "?")}
	}
	// underscores are only legal with base 0; any non-digit is a syntax error
	if !I.x.branch(digitsOnly(bs)) {
		return tuple{int64(0), parseErr("ParseInt", "?")}
	}
	if len(bs) > 18 {
		panic(outOfReach{"ParseInt symbolic with more than 18 digits"})
	}
	v := hornerDigits(bs)
	if neg {
		v = mkNeg(v)
	}
	return tuple{fromTerm(v, types.Int64), iface{}}
}

func inParseFloat(fr *frame, a []value) value {
	s, ok := a[0].(sstr)
	if !ok {
		v, err := strconv.ParseFloat(checkLazy(a[0].(string)), a[1].(int))
		if err != nil {
			return tuple{v, mkError(err.Error())}
		}
		return tuple{v, iface{}}
	}
	I.x.noteSym()
	bs := []value(s)
	// a string of up to 18 digits is an int64; ParseFloat rounds it to the nearest float64 (ties to
	// even) exactly as the conversion float64(int64) does
	if len(bs) <= 18 && len(bs) > 0 && I.x.branch(digitsOnly(bs)) {
		I.fpUsed = true
		return tuple{fromTerm(mkSIToFP(hornerDigits(bs)), types.Float64), iface{}}
	}
	if I.freeParseFloat {
		// over-approximation: any outcome of the real function is possible
		I.stubs["strconv.ParseFloat on symbolic text: outcome unconstrained (one uninterpreted outcome per distinct text)"]++
		// uninterpreted function: the same text gets the same outcome
		key := "pf"
		for _, b := range bs {
			switch b := b.(type) {
			case uint8:
				key += fmt.Sprintf(",c%d", b)
			case *Term:
				key += fmt.Sprintf(",t%d", b.id)
			}
		}
		ok := I.x.newVar("internal", key, SBool, nil)
		if I.x.branch(ok) {
			return tuple{float64(0), iface{}}
		}
		return tuple{float64(0), parseErr("ParseFloat", "?")}
	}
	// otherwise enumerate the bytes (each a fork) and ask the real function
	buf := make([]byte, len(bs))
	for i, b := range bs {
		switch b := b.(type) {
		case uint8:
			buf[i] = b
		case *Term:
			// the value set over-approximates (an ITE carries the union of its arms); the
			// enumeration below only visits values feasible under the path condition
			if b.vs == nil {
				panic(outOfReach{"ParseFloat of unrestricted symbolic text"})
			}
			buf[i] = byte(I.x.concretize(b, "ParseFloat byte"))
		}
	}
	v, err := strconv.ParseFloat(string(buf), 64)
	if err != nil {
		return tuple{v, mkError(err.Error())}
	}
	return tuple{v, iface{}}
}

// ---------------------------------------------------------------- fmt

// toNative converts an interpreter value to a native Go value usable with fmt.
func toNative(v value) (interface{}, bool) {
	switch x := v.(type) {
	case bool, int, int8, int16, int32, int64, uint, uint8, uint16, uint32, uint64, uintptr, float32, float64, string:
		return x, true
	case iface:
		if x.t == nil {
			return nil, true
		}
		if s, ok := stringerOf(x); ok {
			if cs, ok := s.(string); ok {
				return fmtString(cs), true
			}
			return nil, false
		}
		return toNative(x.v)
	case []value:
		// []byte or other slices of scalars
		if len(x) == 0 {
			return []byte{}, true
		}
		if _, isByte := x[0].(uint8); isByte {
			if sliceHasSym(x) {
				return nil, false
			}
			return concreteBytes(x), true
		}
		out := make([]interface{}, len(x))
		for i := range x {
			n, ok := toNative(x[i])
			if !ok {
				return nil, false
			}
			out[i] = n
		}
		return out, true
	case structure, *value, *omap, array:
		return fmt.Sprintf("<%T>", x), true
	}
	return nil, false
}

type fmtString string

func (s fmtString) String() string { return string(s) }
func (s fmtString) Error() string  { return string(s) }

// stringerOf calls Error() or String() of the dynamic type, if present.
func stringerOf(x iface) (value, bool) {
	if x.t == nil {
		return nil, false
	}
	if _, ok := x.t.Underlying().(*types.Basic); ok {
		if _, named := x.t.(*types.Named); !named {
			return nil, false
		}
	}
	for _, name := range []string{"Error", "String"} {
		if m := findMethod(x.t, name); m != nil {
			sig := m.Signature
			if sig.Params().Len() == 0 && sig.Results().Len() == 1 {
				return callSSA(I.curFrame, 0, m, []value{x.v}, nil), true
			}
		}
	}
	return nil, false
}

func sprintf(format string, args []value) value {
	var out []value
	emit := func(s string) {
		for i := 0; i < len(s); i++ {
			out = append(out, s[i])
		}
	}
	ai := 0
	for i := 0; i < len(format); i++ {
		c := format[i]
		if c != '%' {
			out = append(out, c)
			continue
		}
		j := i + 1
		for j < len(format) && strings.IndexByte("+-# 0123456789.", format[j]) >= 0 {
			j++
		}
		if j >= len(format) {
			emit("%!(NOVERB)")
			break
		}
		verb := format[j]
		spec := format[i : j+1]
		i = j
		if verb == '%' {
			out = append(out, '%')
			continue
		}
		if ai >= len(args) {
			emit("%!" + string(verb) + "(MISSING)")
			continue
		}
		arg := args[ai]
		ai++
		// unwrap the interface box
		var inner value = arg
		if b, ok := arg.(iface); ok {
			inner = b.v
			if b.t != nil {
				if s, ok := stringerOf(b); ok && (verb == 's' || verb == 'v' || verb == 'q') {
					if ss, isSym := s.(sstr); isSym {
						out = append(out, []value(ss)...)
						continue
					}
					emit(fmt.Sprintf(spec, fmtString(s.(string))))
					continue
				}
			}
		}
		switch x := inner.(type) {
		case sstr:
			if verb == 's' || verb == 'v' {
				out = append(out, []value(x)...)
				continue
			}
			panic(outOfReach{"Sprintf " + spec + " of symbolic string"})
		case []value:
			if sliceHasSym(x) {
				if verb == 's' && spec == "%s" {
					out = append(out, x...)
					continue
				}
				panic(outOfReach{"Sprintf " + spec + " of symbolic bytes"})
			}
		case *Term:
			I.x.noteSym()
			var b iface
			if bb, ok := arg.(iface); ok {
				b = bb
			}
			k := types.Int
			if b.t != nil {
				k = basicKind(b.t)
			}
			if x.sort != SFP64 && (x.vs == nil || len(x.vs) > 16) && I.lazyFormat {
				// unconstrained symbolic number: the text is opaque; inspecting it later is out of reach
				I.lazyUsed = true
				I.stubs["fmt.Sprintf of an unconstrained symbolic number: opaque text (inspection = out of reach)"]++
				emit(fmt.Sprintf("%s<%s:t%d>", lazyMarker, spec, x.id))
				continue
			}
			if x.sort == SFP64 && (x.vs == nil) {
				// a float chosen from a pool: enumerate the pool entries
				v := I.x.concretize(x, "Sprintf float")
				emit(fmt.Sprintf(spec, math.Float64frombits(v)))
				continue
			}
			v := I.x.concretize(x, "Sprintf operand")
			emit(fmt.Sprintf(spec, fromTerm(mkConst(x.sort, v), k)))
			continue
		}
		n, ok := toNative(arg)
		if !ok {
			panic(outOfReach{fmt.Sprintf("Sprintf %s of %T", spec, inner)})
		}
		if verb == 'w' {
			spec = spec[:len(spec)-1] + "v"
		}
		emit(fmt.Sprintf(spec, n))
	}
	if ai < len(args) {
		emit("%!(EXTRA)")
	}
	return mkStr(out)
}

// ---------------------------------------------------------------- regexp, json (concrete only)

type nativeObj struct{ v interface{} }

// quantileStub counts the samples inserted into a stubbed quantile sketch.
type quantileStub struct{ n int }

func inRegexpCompile(fr *frame, a []value) value {
	pat, ok := a[0].(string)
	if !ok {
		panic(outOfReach{"regexp.Compile of symbolic pattern"})
	}
	re, err := regexp.Compile(pat)
	if err != nil {
		return tuple{(*value)(nil), mkError(err.Error())}
	}
	var cell value = nativeObj{re}
	return tuple{&cell, iface{}}
}

func inRegexpMatch(fr *frame, a []value) value {
	p := a[0].(*value)
	if p == nil {
		panic(rtPanic("runtime error: invalid memory address or nil pointer dereference"))
	}
	re := (*p).(nativeObj).v.(*regexp.Regexp)
	switch s := a[1].(type) {
	case string:
		return re.MatchString(s)
	case []value:
		if sliceHasSym(s) {
			panic(outOfReach{"regexp match on symbolic text"})
		}
		return re.Match(concreteBytes(s))
	}
	panic(outOfReach{"regexp match on symbolic text"})
}

var (
	tAny      = types.NewInterfaceType(nil, nil).Complete()
	tMapSA    = types.NewMap(types.Typ[types.String], tAny)
	tSliceAny = types.NewSlice(tAny)
)

func fromNativeJSON(x interface{}) value {
	switch x := x.(type) {
	case nil:
		return iface{}
	case bool:
		return iface{types.Typ[types.Bool], x}
	case float64:
		return iface{types.Typ[types.Float64], x}
	case string:
		return iface{types.Typ[types.String], x}
	case []interface{}:
		r := make([]value, len(x))
		for i := range x {
			r[i] = fromNativeJSON(x[i])
		}
		return iface{tSliceAny, r}
	case map[string]interface{}:
		m := makeMap(types.Typ[types.String]).(*omap)
		keys := make([]string, 0, len(x))
		for k := range x {
			keys = append(keys, k)
		}
		sort.Strings(keys)
		for _, k := range keys {
			m.insert(k, fromNativeJSON(x[k]))
		}
		return iface{tMapSA, m}
	}
	panic(fmt.Sprintf("fromNativeJSON: %T", x))
}

func inJSONUnmarshal(fr *frame, a []value) value {
	data := a[0].([]value)
	if sliceHasSym(data) {
		// a few symbolic bytes from small alphabets: enumerate them (each value a fork) and let the
		// real decoder run on the concrete document
		nsym := 0
		for _, b := range data {
			if t, ok := b.(*Term); ok {
				nsym++
				if t.vs == nil {
					panic(outOfReach{"json.Unmarshal of symbolic text"})
				}
			}
		}
		if nsym > 3 {
			panic(outOfReach{"json.Unmarshal of symbolic text"})
		}
		conc := make([]value, len(data))
		for i, b := range data {
			if t, ok := b.(*Term); ok {
				conc[i] = uint8(I.x.concretize(t, "json byte"))
			} else {
				conc[i] = b
			}
		}
		data = conc
	}
	target := a[1].(iface)
	ptr, ok := target.v.(*value)
	if !ok || ptr == nil {
		panic(outOfReach{"json.Unmarshal into unsupported target"})
	}
	elem := mustDeref(target.t)
	var x interface{}
	if mt, isMap := elem.Underlying().(*types.Map); isMap {
		// map[string]any target (kvql.JSON): object members are merged into the existing map
		if basicKind(mt.Key()) != types.String {
			panic(outOfReach{"json.Unmarshal into map with non-string keys"})
		}
		var obj map[string]interface{}
		if err := json.Unmarshal(concreteBytes(data), &obj); err != nil {
			return mkError(err.Error())
		}
		if obj == nil { // JSON null leaves the map unchanged
			return iface{}
		}
		m, _ := (*ptr).(*omap)
		if m == nil {
			m = makeMap(mt.Key()).(*omap)
			*ptr = m
		}
		keys := make([]string, 0, len(obj))
		for k := range obj {
			keys = append(keys, k)
		}
		sort.Strings(keys)
		for _, k := range keys {
			m.insert(k, fromNativeJSON(obj[k]))
		}
		return iface{}
	}
	if _, isIface := elem.Underlying().(*types.Interface); !isIface {
		panic(outOfReach{"json.Unmarshal into unsupported target " + elem.String()})
	}
	if err := json.Unmarshal(concreteBytes(data), &x); err != nil {
		return mkError(err.Error())
	}
	*ptr = fromNativeJSON(x)
	return iface{}
}

func toNativeJSON(v value) (interface{}, bool) {
	switch x := v.(type) {
	case iface:
		if x.t == nil {
			return nil, true
		}
		return toNativeJSON(x.v)
	case bool, int, int64, float64, string:
		return x, true
	case []value:
		if len(x) > 0 {
			if _, isByte := x[0].(uint8); isByte {
				if sliceHasSym(x) {
					return nil, false
				}
				return concreteBytes(x), true
			}
		}
		out := make([]interface{}, len(x))
		for i := range x {
			n, ok := toNativeJSON(x[i])
			if !ok {
				return nil, false
			}
			out[i] = n
		}
		return out, true
	case *omap:
		out := map[string]interface{}{}
		if x != nil {
			for _, e := range x.entries {
				if e.deleted {
					continue
				}
				k, ok := e.k.(string)
				if !ok {
					return nil, false
				}
				n, ok := toNativeJSON(e.v)
				if !ok {
					return nil, false
				}
				out[k] = n
			}
		}
		return out, true
	}
	return nil, false
}

func inJSONMarshal(fr *frame, a []value) value {
	n, ok := toNativeJSON(a[0])
	if !ok {
		panic(outOfReach{"json.Marshal of symbolic or unsupported value"})
	}
	b, err := json.Marshal(n)
	if err != nil {
		return tuple{[]value(nil), mkError(err.Error())}
	}
	return tuple{bytesToValues(b), iface{}}
}

func symMinMax(x, y value, isMin bool) value {
	a, b := toTerm(x), toTerm(y)
	if a.sort == SFP64 {
		panic(outOfReach{"min/max of symbolic floats"})
	}
	// builtin min/max on ints in kvql are on int (signed)
	lt := mkCmp(OpSlt, a, b)
	var r *Term
	if isMin {
		r = mkIte(lt, a, b)
	} else {
		r = mkIte(lt, b, a)
	}
	switch x.(type) {
	case int:
		return fromTerm(r, types.Int)
	}
	switch y.(type) {
	case int:
		return fromTerm(r, types.Int)
	case int64:
		return fromTerm(r, types.Int64)
	}
	if r.isConst() {
		return int(r.val)
	}
	return r
}
