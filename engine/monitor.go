package main

// Write-footprint monitor (C19): objects reachable from package-level variables are "shared".

func markShared() {
	I.shared = map[*value]bool{}
	I.sharedMaps = map[*omap]bool{}
	for g, cell := range I.globals {
		if g.Pkg != I.mainPkg {
			continue
		}
		I.shared[cell] = true
		markSharedFrom(*cell)
	}
}

// markSharedFrom adds everything reachable from v to the shared set (package-level variables
// at start-up; later, objects handed to a package-level sync.Pool).
func markSharedFrom(root value) {
	if I.shared == nil {
		return
	}
	seen := map[interface{}]bool{}
	var walk func(v value)
	walk = func(v value) {
		switch x := v.(type) {
		case *value:
			if x == nil || seen[x] {
				return
			}
			seen[x] = true
			I.shared[x] = true
			walk(*x)
		case *omap:
			if x == nil || seen[x] {
				return
			}
			seen[x] = true
			I.sharedMaps[x] = true
			for i := range x.entries {
				walk(x.entries[i].k)
				walk(x.entries[i].v)
			}
		case structure:
			for i := range x {
				I.shared[&x[i]] = true
				walk(x[i])
			}
		case array:
			for i := range x {
				I.shared[&x[i]] = true
				walk(x[i])
			}
		case []value:
			full := x[:cap(x)]
			for i := range full {
				I.shared[&full[i]] = true
				walk(full[i])
			}
		case iface:
			walk(x.v)
		case *closure:
			if x != nil {
				for _, e := range x.Env {
					walk(e)
				}
			}
		}
	}
	walk(root)
}

func noteWrite(fr *frame, addr *value) {
	if I.shared[addr] {
		// writes by the harness itself (configuration in the prologue) are not kvql's
		if isHarnessFn(fr.fn) {
			return
		}
		I.sharedWrites = append(I.sharedWrites, "store at "+fr.pos())
	}
}

func noteAppend(fr *frame, dst []value, n int) {
	if fr == nil || isHarnessFn(fr.fn) {
		return
	}
	if len(dst)+n <= cap(dst) && n > 0 {
		full := dst[:cap(dst)]
		if I.shared[&full[len(dst)]] {
			I.sharedWrites = append(I.sharedWrites, "append in place at "+fr.pos())
		}
	}
}

func isHarnessFn(fn *ssaFunction) bool {
	if fn == nil {
		return false
	}
	p := I.prog.Fset.Position(fn.Pos()).Filename
	for i := len(p) - 1; i >= 0; i-- {
		if p[i] == '/' {
			p = p[i+1:]
			break
		}
	}
	return len(p) > 9 && p[:9] == "zz_verif_"
}

func inSharedWrites(fr *frame, a []value) value {
	r := make([]value, len(I.sharedWrites))
	for i, s := range I.sharedWrites {
		r[i] = s
	}
	return r
}

func inMarkShared(fr *frame, a []value) value {
	I.monitorShared = true
	markShared()
	return nil
}

func noteCopy(fr *frame, dst []value, n int) {
	if fr == nil || isHarnessFn(fr.fn) {
		return
	}
	if n > len(dst) {
		n = len(dst)
	}
	for i := 0; i < n; i++ {
		if I.shared[&dst[i]] {
			I.sharedWrites = append(I.sharedWrites, "copy into shared slice at "+fr.pos())
			return
		}
	}
}
