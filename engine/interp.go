// Derived from golang.org/x/tools/go/ssa/interp (Copyright 2013 The Go Authors, BSD-style
// license) and extended with symbolic values, path forking and intrinsics.

package main

import (
	"fmt"
	"go/token"
	"go/types"
	"os"
	"runtime"
	"slices"
	"strings"

	"golang.org/x/tools/go/ssa"
)

type continuation int

const (
	kNext continuation = iota
	kReturn
	kJump
)

type methodSet map[string]*ssa.Function

type interpreter struct {
	prog               *ssa.Program
	mainPkg            *ssa.Package
	globals            map[*ssa.Global]*value
	runtimeErrorString types.Type
	x                  *Explorer
	steps              int64
	maxSteps           int64
	depth              int
	maxDepth           int
	curFrame           *frame
	allowSymMul        bool
	tracing            bool
	reverseMaps        bool
	freeParseFloat     bool
	lazyFormat         bool
	lazyUsed           bool
	stubs              map[string]int
	fpUsed             bool
	// footprint monitor (C19)
	monitorShared bool
	shared        map[*value]bool
	sharedMaps    map[*omap]bool
	sharedWrites  []string
}

var I *interpreter

type deferred struct {
	fn    value
	args  []value
	instr *ssa.Defer
	tail  *deferred
}

type frame struct {
	caller           *frame
	fn               *ssa.Function
	block, prevBlock *ssa.BasicBlock
	env              map[ssa.Value]value
	locals           []value
	defers           *deferred
	result           value
	panicking        bool
	panic            interface{}
	phitemps         []value
	cur              ssa.Instruction
}

func mustDeref(t types.Type) types.Type {
	if p, ok := t.Underlying().(*types.Pointer); ok {
		return p.Elem()
	}
	panic(fmt.Sprintf("mustDeref: %v is not a pointer", t))
}

func (fr *frame) get(key ssa.Value) value {
	switch key := key.(type) {
	case nil:
		return nil
	case *ssa.Function, *ssa.Builtin:
		return key
	case *ssa.Const:
		return constValue(key)
	case *ssa.Global:
		if r, ok := I.globals[key]; ok {
			return r
		}
		cell := zero(mustDeref(key.Type()))
		p := &cell
		I.globals[key] = p
		if key.Pkg != I.mainPkg {
			I.stubs["global:"+key.String()+" (zero value)"]++
		}
		return p
	}
	if r, ok := fr.env[key]; ok {
		return r
	}
	panic(fmt.Sprintf("get: no value for %T: %v", key, key.Name()))
}

func isEngineControl(p interface{}) bool {
	switch p.(type) {
	case pathEnd, outOfReach, budgetExceeded, stopPath, engineError:
		return true
	case *runtime.TypeAssertionError:
		return true // bug in the engine, not in the target
	case string:
		return true // engine-internal "cannot happen" panics
	}
	return false
}

func (fr *frame) runDefer(d *deferred) {
	var ok bool
	defer func() {
		if !ok {
			p := recover()
			if isEngineControl(p) {
				panic(p)
			}
			fr.panicking = true
			fr.panic = p
		}
	}()
	call(fr, d.instr.Pos(), d.fn, d.args)
	ok = true
}

func (fr *frame) runDefers() {
	for d := fr.defers; d != nil; d = d.tail {
		fr.runDefer(d)
	}
	fr.defers = nil
	if fr.panicking {
		panic(fr.panic)
	}
}

func lookupMethod(typ types.Type, meth *types.Func) *ssa.Function {
	return I.prog.LookupMethod(typ, meth.Pkg(), meth.Name())
}

func (fr *frame) pos() string {
	if fr == nil || fr.cur == nil {
		return "?"
	}
	p := fr.cur.Pos()
	if p == token.NoPos {
		// search backwards for a position
		if fr.block != nil {
			for _, in := range fr.block.Instrs {
				if in.Pos() != token.NoPos {
					p = in.Pos()
				}
				if in == fr.cur {
					break
				}
			}
		}
	}
	ps := I.prog.Fset.Position(p)
	f := ps.Filename
	if i := strings.LastIndex(f, "/"); i >= 0 {
		f = f[i+1:]
	}
	return fmt.Sprintf("%s:%s:%d", fr.fn.Name(), f, ps.Line)
}

func visitInstr(fr *frame, instr ssa.Instruction) continuation {
	I.steps++
	if I.steps > I.maxSteps {
		panic(budgetExceeded{"steps"})
	}
	fr.cur = instr
	switch instr := instr.(type) {
	case *ssa.DebugRef:

	case *ssa.UnOp:
		fr.env[instr] = unop(instr, fr.get(instr.X))

	case *ssa.BinOp:
		fr.env[instr] = binop(instr.Op, instr.X.Type(), fr.get(instr.X), fr.get(instr.Y))

	case *ssa.Call:
		fn, args := prepareCall(fr, &instr.Call)
		fr.env[instr] = call(fr, instr.Pos(), fn, args)
		I.curFrame = fr

	case *ssa.ChangeInterface:
		fr.env[instr] = fr.get(instr.X)

	case *ssa.ChangeType:
		fr.env[instr] = fr.get(instr.X)

	case *ssa.Convert:
		fr.env[instr] = conv(instr.Type(), instr.X.Type(), fr.get(instr.X))

	case *ssa.SliceToArrayPointer:
		fr.env[instr] = sliceToArrayPointer(instr.Type(), instr.X.Type(), fr.get(instr.X))

	case *ssa.MakeInterface:
		fr.env[instr] = iface{t: instr.X.Type(), v: fr.get(instr.X)}

	case *ssa.Extract:
		fr.env[instr] = fr.get(instr.Tuple).(tuple)[instr.Index]

	case *ssa.Slice:
		fr.env[instr] = slice(fr.get(instr.X), fr.get(instr.Low), fr.get(instr.High), fr.get(instr.Max))

	case *ssa.Return:
		switch len(instr.Results) {
		case 0:
		case 1:
			fr.result = fr.get(instr.Results[0])
		default:
			var res []value
			for _, r := range instr.Results {
				res = append(res, fr.get(r))
			}
			fr.result = tuple(res)
		}
		fr.block = nil
		return kReturn

	case *ssa.RunDefers:
		fr.runDefers()

	case *ssa.Panic:
		panic(targetPanic{fr.get(instr.X)})

	case *ssa.Store:
		addr := fr.get(instr.Addr).(*value)
		if addr == nil {
			panic(rtPanic("runtime error: invalid memory address or nil pointer dereference"))
		}
		if I.monitorShared {
			noteWrite(fr, addr)
		}
		store(mustDeref(instr.Addr.Type()), addr, fr.get(instr.Val))

	case *ssa.If:
		succ := 1
		switch c := fr.get(instr.Cond).(type) {
		case bool:
			if c {
				succ = 0
			}
		case *Term:
			I.curFrame = fr
			if I.x.branch(c) {
				succ = 0
			}
		default:
			panic(fmt.Sprintf("If on %T", c))
		}
		fr.prevBlock, fr.block = fr.block, fr.block.Succs[succ]
		return kJump

	case *ssa.Jump:
		fr.prevBlock, fr.block = fr.block, fr.block.Succs[0]
		return kJump

	case *ssa.Defer:
		fn, args := prepareCall(fr, &instr.Call)
		defers := &fr.defers
		if into := fr.get(instr.DeferStack); into != nil {
			defers = into.(**deferred)
		}
		*defers = &deferred{fn: fn, args: args, instr: instr, tail: *defers}

	case *ssa.Go:
		panic(outOfReach{"go statement"})

	case *ssa.MakeChan:
		panic(outOfReach{"make(chan)"})

	case *ssa.Alloc:
		var addr *value
		if instr.Heap {
			addr = new(value)
			fr.env[instr] = addr
		} else {
			addr = fr.env[instr].(*value)
		}
		*addr = zero(mustDeref(instr.Type()))

	case *ssa.MakeSlice:
		c := concInt(fr.get(instr.Cap), 0, 4096, "make cap")
		l := concInt(fr.get(instr.Len), 0, 4096, "make len")
		if l < 0 || c < 0 || l > c {
			panic(rtPanic("runtime error: makeslice: len out of range"))
		}
		if c > 1<<22 {
			panic(outOfReach{"makeslice: huge capacity"})
		}
		slice := make([]value, c)
		tElt := instr.Type().Underlying().(*types.Slice).Elem()
		for i := range slice {
			slice[i] = zero(tElt)
		}
		fr.env[instr] = slice[:l]

	case *ssa.MakeMap:
		fr.env[instr] = makeMap(instr.Type().Underlying().(*types.Map).Key())

	case *ssa.Range:
		fr.env[instr] = rangeIter(fr.get(instr.X), instr.X.Type())

	case *ssa.Next:
		fr.env[instr] = fr.get(instr.Iter).(iter).next()

	case *ssa.FieldAddr:
		p := fr.get(instr.X).(*value)
		if p == nil {
			panic(rtPanic("runtime error: invalid memory address or nil pointer dereference"))
		}
		fr.env[instr] = &(*p).(structure)[instr.Field]

	case *ssa.Field:
		fr.env[instr] = fr.get(instr.X).(structure)[instr.Field]

	case *ssa.IndexAddr:
		x := fr.get(instr.X)
		idx := fr.get(instr.Index)
		switch x := x.(type) {
		case []value:
			i := concIndex(idx, len(x))
			fr.env[instr] = &x[i]
		case *value: // *array
			if x == nil {
				panic(rtPanic("runtime error: invalid memory address or nil pointer dereference"))
			}
			a := (*x).(array)
			if t, ok := idx.(*Term); ok {
				// a lookup table of constants read at a symbolic position: select the element by
				// an ITE over runs of equal values instead of forking once per position
				if sel, ok := tableSelect(instr, a, t); ok {
					var cell value = sel
					fr.env[instr] = &cell
					break
				}
			}
			i := concIndex(idx, len(a))
			fr.env[instr] = &a[i]
		default:
			panic(fmt.Sprintf("unexpected x type in IndexAddr: %T", x))
		}

	case *ssa.Index:
		x := fr.get(instr.X)
		idx := fr.get(instr.Index)
		switch x := x.(type) {
		case array:
			fr.env[instr] = x[concIndex(idx, len(x))]
		case string:
			checkLazy(x)
			fr.env[instr] = x[concIndex(idx, len(x))]
		case sstr:
			fr.env[instr] = x[concIndex(idx, len(x))]
		default:
			panic(fmt.Sprintf("unexpected x type in Index: %T", x))
		}

	case *ssa.Lookup:
		fr.env[instr] = lookup(instr, fr.get(instr.X), fr.get(instr.Index))

	case *ssa.MapUpdate:
		m := fr.get(instr.Map).(*omap)
		if m == nil {
			panic(rtPanic("assignment to entry in nil map"))
		}
		if I.monitorShared && I.sharedMaps[m] {
			I.sharedWrites = append(I.sharedWrites, "map update at "+fr.pos())
		}
		m.insert(fr.get(instr.Key), fr.get(instr.Value))

	case *ssa.TypeAssert:
		fr.env[instr] = typeAssert(instr, fr.get(instr.X).(iface))

	case *ssa.MakeClosure:
		var bindings []value
		for _, binding := range instr.Bindings {
			bindings = append(bindings, fr.get(binding))
		}
		fr.env[instr] = &closure{instr.Fn.(*ssa.Function), bindings}

	case *ssa.Phi:
		panic("unreachable: phi")

	case *ssa.Select, *ssa.Send:
		panic(outOfReach{"channel operation"})

	default:
		panic(fmt.Sprintf("unexpected instruction: %T", instr))
	}
	return kNext
}

// concIndex makes an index concrete, forking as needed; out-of-range raises the Go panic.
// tableSelect: instr addresses array a (all elements concrete integers of one kind) at symbolic
// index t and the address is only ever loaded from. Returns the selected element as a term.
func tableSelect(instr *ssa.IndexAddr, a array, t *Term) (value, bool) {
	if len(a) == 0 || len(a) > 256 {
		return nil, false
	}
	refs := instr.Referrers()
	if refs == nil {
		return nil, false
	}
	for _, r := range *refs {
		u, ok := r.(*ssa.UnOp)
		if !ok || u.Op != token.MUL {
			return nil, false
		}
	}
	et := mustDeref(instr.Type())
	k := basicKind(et)
	switch k {
	case types.Int, types.Int8, types.Int16, types.Int32, types.Int64, types.Uint, types.Uint8, types.Uint16, types.Uint32, types.Uint64:
	default:
		return nil, false
	}
	srt, _ := kindSort(k)
	if srt != SBV8 && srt != SBV16 && srt != SBV32 && srt != SBV64 {
		return nil, false
	}
	vals := make([]uint64, len(a))
	for i, e := range a {
		if isSym(e) {
			return nil, false
		}
		et := toTerm(e)
		if et == nil || !et.isConst() {
			return nil, false
		}
		vals[i] = et.val
	}
	if t.sort != SBV64 {
		t = mkZext(t, SBV64)
	}
	in := mkAnd(mkCmp(OpSle, mkConst(SBV64, 0), t), mkCmp(OpSlt, t, mkConst(SBV64, uint64(len(a)))))
	if !I.x.branch(in) {
		panic(rtPanic(fmt.Sprintf("runtime error: index out of range with length %d", len(a))))
	}
	acc := selectRun(vals, len(vals)-1, srt, t)
	return fromTerm(acc, k), true
}

// selectRun builds the selection among positions 0..hi.
func selectRun(vals []uint64, hi int, srt Sort, t *Term) *Term {
	acc := mkConst(srt, vals[hi])
	for i := hi - 1; i >= 0; i-- {
		if vals[i] == vals[i+1] {
			continue
		}
		return mkIte(mkCmp(OpSle, t, mkConst(SBV64, uint64(i))), selectRun(vals, i, srt, t), acc)
	}
	return acc
}

func concIndex(idx value, n int) int {
	if t, ok := idx.(*Term); ok {
		if n == 0 {
			panic(rtPanic("runtime error: index out of range"))
		}
		if t.sort != SBV64 {
			// indices of narrower integer types: widen by their static signedness is unknown here;
			// Go SSA converts index operands to int only implicitly, so treat as unsigned bytes etc.
			t = mkZext(t, SBV64)
		}
		v := I.x.concretizeIn(t, 0, int64(n-1), "index")
		if v < 0 || v >= int64(n) {
			panic(rtPanic(fmt.Sprintf("runtime error: index out of range [%d] with length %d", v, n)))
		}
		return int(v)
	}
	i := asInt64(idx)
	if i < 0 || i >= int64(n) {
		panic(rtPanic(fmt.Sprintf("runtime error: index out of range [%d] with length %d", i, n)))
	}
	return int(i)
}

// concInt makes an integer value concrete (forking over [lo,hi], one representative outside).
func concInt(v value, lo, hi int64, what string) int64 {
	if v == nil {
		return 0
	}
	if t, ok := v.(*Term); ok {
		w := t
		if t.sort != SBV64 {
			w = mkSext(t, SBV64)
		}
		return I.x.concretizeIn(w, lo, hi, what)
	}
	return asInt64(v)
}

func prepareCall(fr *frame, call *ssa.CallCommon) (fn value, args []value) {
	v := fr.get(call.Value)
	if call.Method == nil {
		fn = v
	} else {
		recv := v.(iface)
		if recv.t == nil {
			panic(rtPanic("runtime error: invalid memory address or nil pointer dereference (method call on nil interface)"))
		}
		if f := lookupMethod(recv.t, call.Method); f == nil {
			panic(fmt.Sprintf("method set for dynamic type %v does not contain %s", recv.t, call.Method))
		} else {
			fn = f
		}
		args = append(args, recv.v)
	}
	for _, arg := range call.Args {
		args = append(args, fr.get(arg))
	}
	return
}

func call(caller *frame, callpos token.Pos, fn value, args []value) value {
	switch fn := fn.(type) {
	case *ssa.Function:
		if fn == nil {
			panic(rtPanic("runtime error: invalid memory address or nil pointer dereference (call of nil func)"))
		}
		return callSSA(caller, callpos, fn, args, nil)
	case *closure:
		return callSSA(caller, callpos, fn.Fn, args, fn.Env)
	case *ssa.Builtin:
		return callBuiltin(caller, callpos, fn, args)
	}
	panic(fmt.Sprintf("cannot call %T", fn))
}

func callSSA(caller *frame, callpos token.Pos, fn *ssa.Function, args []value, env []value) value {
	fr := &frame{caller: caller, fn: fn}
	if fn.Parent() == nil {
		name := fn.String()
		if ext := intrinsics[name]; ext != nil {
			I.curFrame = caller
			return ext(fr, args)
		}
		if fn.Pkg != nil && fn.Pkg != I.mainPkg {
			if fn.Name() == "init" && !initialisedPkgs[fn.Pkg.Pkg.Path()] {
				return nil // dependency initialisers are not executed
			}
			if !interpretedPkgs[fn.Pkg.Pkg.Path()] {
				panic(outOfReach{"call into " + name + " (no model)"})
			}
		}
		if fn.Blocks == nil {
			panic(outOfReach{"no code for function: " + name})
		}
	} else if fn.Blocks == nil {
		panic(outOfReach{"no code for function: " + fn.String()})
	}
	if fn.Pkg == nil && fn.Blocks == nil {
		panic(outOfReach{"no code for synthetic function: " + fn.String()})
	}
	if fn.TypeParams().Len() > 0 && len(fn.TypeArgs()) == 0 {
		panic("generic function body not instantiated: " + fn.String())
	}
	I.depth++
	if I.depth > I.maxDepth {
		panic(budgetExceeded{"call depth"})
	}
	defer func() { I.depth-- }()

	fr.env = make(map[ssa.Value]value, 16)
	fr.block = fn.Blocks[0]
	fr.locals = make([]value, len(fn.Locals))
	for i, l := range fn.Locals {
		fr.locals[i] = zero(mustDeref(l.Type()))
		fr.env[l] = &fr.locals[i]
	}
	for i, p := range fn.Params {
		fr.env[p] = args[i]
	}
	for i, fv := range fn.FreeVars {
		fr.env[fv] = env[i]
	}
	I.curFrame = fr
	for fr.block != nil {
		runFrame(fr)
	}
	return fr.result
}

func runFrame(fr *frame) {
	defer func() {
		if fr.block == nil {
			return // normal return
		}
		p := recover()
		if isEngineControl(p) {
			panic(p)
		}
		if _, ok := p.(panicInfo); !ok {
			// remember the innermost site of the panic
			p = panicInfo{p: p, site: fr.pos()}
		}
		fr.panicking = true
		fr.panic = p
		fr.runDefers()
		fr.block = fr.fn.Recover
	}()

	for {
		nonPhis := executePhis(fr)
		for _, instr := range nonPhis {
			if I.tracing {
				if v, ok := instr.(ssa.Value); ok {
					fmt.Fprintln(os.Stderr, "\t", fr.fn.Name(), v.Name(), "=", instr)
				} else {
					fmt.Fprintln(os.Stderr, "\t", fr.fn.Name(), instr)
				}
			}
			if visitInstr(fr, instr) == kReturn {
				return
			}
		}
	}
}

// panicInfo wraps a target-level panic with the site at which it was raised.
type panicInfo struct {
	p    interface{}
	site string
}

func (pi panicInfo) message() string {
	switch p := pi.p.(type) {
	case targetPanic:
		return "panic: " + toString(p.v)
	case rtPanic:
		return string(p)
	case runtime.Error:
		return p.Error()
	}
	return fmt.Sprintf("%v", pi.p)
}

func executePhis(fr *frame) []ssa.Instruction {
	firstNonPhi := -1
	for i, instr := range fr.block.Instrs {
		if _, ok := instr.(*ssa.Phi); !ok {
			firstNonPhi = i
			break
		}
	}
	nonPhis := fr.block.Instrs[firstNonPhi:]
	if firstNonPhi > 0 {
		phis := fr.block.Instrs[:firstNonPhi]
		predIndex := slices.Index(fr.block.Preds, fr.prevBlock)
		fr.phitemps = fr.phitemps[:0]
		for _, phi := range phis {
			phi := phi.(*ssa.Phi)
			fr.phitemps = append(fr.phitemps, fr.get(phi.Edges[predIndex]))
		}
		for i, phi := range phis {
			fr.env[phi.(*ssa.Phi)] = fr.phitemps[i]
		}
	}
	return nonPhis
}

func doRecover(caller *frame) value {
	if caller != nil && !caller.panicking &&
		caller.caller != nil && caller.caller.panicking {
		caller.caller.panicking = false
		p := caller.caller.panic
		caller.caller.panic = nil
		if pi, ok := p.(panicInfo); ok {
			p = pi.p
		}
		switch p := p.(type) {
		case targetPanic:
			return p.v
		case rtPanic:
			return iface{I.runtimeErrorString, string(p)}
		case runtime.Error:
			return iface{I.runtimeErrorString, p.Error()}
		default:
			panic(fmt.Sprintf("unexpected panic type %T in target call to recover()", p))
		}
	}
	return iface{}
}

// packages (besides the main one) whose SSA bodies are interpreted
// interpreted dependencies whose package initialiser (lookup tables) is executed too
var initialisedPkgs = map[string]bool{"unicode/utf8": true}

var interpretedPkgs = map[string]bool{
	"container/heap": true,
	"sort":           true,
	"slices":         true,
	"cmp":            true,
	"errors":         true,
	"unicode/utf8":   true, // pure Go over bytes
}
