package main

// Path exploration by re-execution with decision scripts.

import (
	"fmt"
	"os"
	"sort"
	"strings"
)

type decision struct {
	Kind   byte    // 'b' branch, 'c' choice among n, 'v' concretised value
	Branch bool    // 'b'
	Forced bool    // 'b': other side infeasible (no constraint added)
	N      int     // 'c'
	Pick   int     // 'c'
	Val    int64   // 'v'
	Excl   []int64 // 'v': values already explored by siblings
	Find   bool    // 'v': value still to be found (≠ any of Excl)
}

// control-flow panics of the engine (never visible to the target program)
type pathEnd struct{ reason string } // infeasible or assumption failed: path is dropped silently
type outOfReach struct{ reason string }
type budgetExceeded struct{ what string }
type stopPath struct{} // harness finished early (after violation)

// rtPanic is a Go runtime panic raised deliberately by the engine on behalf of the target.
type rtPanic string

type ndRecord struct {
	Kind string // byte int bool len choose int64 float
	Tag  string
	Term *Term // nil when concrete
	Val  int64 // concrete value (len / choose)
}

type Violation struct {
	AssertID string
	Kind     string // assert | panic | budget
	Detail   string
	Vector   []ReplayItem
	Known    string // id of known finding region it falls into ("" = new)
	PanicSite string
}

type ReplayItem struct {
	Kind string `json:"k"`
	Tag  string `json:"t"`
	Val  int64  `json:"v"`
}

type Explorer struct {
	solver   *Solver
	z3       *Solver
	fpSolver *Solver // cvc5, used for queries that contain floating-point terms
	// per instance
	pending    [][]decision
	inst       *InstanceResult
	// per path
	script  []decision
	trace   []decision
	pc      []*Term
	model   map[string]uint64 // satisfies pc, or nil
	nd      []ndRecord
	vars    []*Term
	tagN    map[string]int
	known   []knownRegion
	covers  map[string]bool
	asserts int
	symFns  map[string]bool
	internal map[string]*Term // engine-created variables of this path (uninterpreted outcomes)
	dom     map[int][]uint64 // refined value domain per variable id (from single-variable constraints)
	rel     map[int]bool     // variable occurs in a constraint together with other variables
	domDecided int
}

type knownRegion struct {
	id   string
	cond *Term
}

type InstanceResult struct {
	Harness     string         `json:"harness"`
	Args        []int          `json:"args"`
	Paths       int            `json:"paths"`
	Completed   int            `json:"completed"`
	Infeasible  int            `json:"infeasible"`
	Panics      int            `json:"panics"`
	OutOfReach  map[string]int `json:"out_of_reach,omitempty"`
	Budget      int            `json:"budget_exceeded"`
	Forks       int            `json:"forks"`
	Asserts     int            `json:"asserts_checked"`
	AssertQ     int            `json:"assert_queries"`
	Unknown     int            `json:"unknown"`
	Covers      map[string]int `json:"covers,omitempty"`
	Violations  []*Violation   `json:"violations,omitempty"`
	KnownSeen   map[string]*Violation `json:"known_seen,omitempty"`
	SymFns      []string       `json:"sym_fns,omitempty"`
	Steps       int64          `json:"steps"`
	Solver      SolverStats    `json:"solver"`
	WallMs      int64          `json:"wall_ms"`
	Samples     []string       `json:"samples,omitempty"`
	EngineError string         `json:"engine_error,omitempty"`
	SampleVectors [][]ReplayItem `json:"sample_vectors,omitempty"`
	Pending     [][]decision   `json:"pending,omitempty"`
	DomDecided  int            `json:"dom_decided"`
	Stubs       map[string]int `json:"stubs,omitempty"`
}

// check routes a query to cvc5 when it contains floating-point terms (z3 4.8.12 is far slower there).
func (x *Explorer) check(pc []*Term, extra []*Term, want []*Term) (SatResult, map[string]uint64) {
	fp := false
	for _, t := range extra {
		if t.fp {
			fp = true
		}
	}
	if !fp {
		for _, t := range pc {
			if t.fp {
				fp = true
				break
			}
		}
	}
	if fp {
		if x.fpSolver == nil {
			x.fpSolver = newSolver("cvc5", x.solver.timeout)
		}
		r, m := x.fpSolver.check(pc, extra, want)
		return r, m
	}
	return x.solver.check(pc, extra, want)
}

func (x *Explorer) beginPath(script []decision) {
	x.script = script
	x.trace = x.trace[:0]
	x.pc = x.pc[:0]
	x.model = map[string]uint64{}
	x.nd = x.nd[:0]
	x.vars = x.vars[:0]
	x.tagN = map[string]int{}
	x.known = x.known[:0]
	x.covers = map[string]bool{}
	x.asserts = 0
	x.dom = map[int][]uint64{}
	x.rel = map[int]bool{}
	x.internal = map[string]*Term{}
}

func (x *Explorer) addPC(c *Term) {
	if c.isTrue() {
		return
	}
	x.pc = append(x.pc, c)
	fv := c.freeVars()
	if len(fv) == 1 {
		v := fv[0]
		if d, ok := x.dom[v.id]; ok {
			nd := d[:0:0]
			env := map[string]uint64{}
			for _, val := range d {
				env[v.name] = val
				if c.eval(env, map[int]uint64{}) != 0 {
					nd = append(nd, val)
				}
			}
			x.dom[v.id] = nd
		}
	} else {
		for _, v := range fv {
			x.rel[v.id] = true
		}
	}
}

const domLimit = 4096

// domDecide evaluates c over the refined domains of its variables.
// res: +1 true for all, -1 false for all, 0 mixed; ok=false when not applicable.
func (x *Explorer) domDecide(c *Term) (res int, ok bool) {
	fv := c.freeVars()
	if len(fv) == 0 || len(fv) > 3 || c.fp {
		return 0, false
	}
	prod := 1
	doms := make([][]uint64, len(fv))
	for i, v := range fv {
		d, have := x.dom[v.id]
		if !have {
			return 0, false
		}
		if len(d) == 0 {
			return 0, false
		}
		doms[i] = d
		prod *= len(d)
		if prod > domLimit {
			return 0, false
		}
	}
	defer func() {
		if recover() != nil {
			res, ok = 0, false
		}
	}()
	env := map[string]uint64{}
	sawT, sawF := false, false
	idx := make([]int, len(fv))
	for {
		for i, v := range fv {
			env[v.name] = doms[i][idx[i]]
		}
		if c.eval(env, map[int]uint64{}) != 0 {
			sawT = true
		} else {
			sawF = true
		}
		if sawT && sawF {
			return 0, true
		}
		k := 0
		for k < len(idx) {
			idx[k]++
			if idx[k] < len(doms[k]) {
				break
			}
			idx[k] = 0
			k++
		}
		if k == len(idx) {
			break
		}
	}
	if sawT {
		return 1, true
	}
	return -1, true
}

// evalModel evaluates c under the current model; ok=false when the model is unusable.
func (x *Explorer) evalModel(c *Term) (val bool, ok bool) {
	if x.model == nil {
		return false, false
	}
	defer func() {
		if r := recover(); r != nil {
			val, ok = false, false
		}
	}()
	memo := make(map[int]uint64)
	return c.eval(x.model, memo) != 0, true
}

func (x *Explorer) fetchModelVars() []*Term { return x.vars }

// feasible decides pc ∧ c; on sat the model is adopted when adopt is set.
func (x *Explorer) feasible(c *Term, adopt bool) SatResult {
	res, m := x.check(x.pc, []*Term{c}, x.vars)
	if res == Unknown {
		x.inst.Unknown++
	}
	if res == Sat && adopt && m != nil {
		x.model = m
	}
	return res
}

// branch decides which way a symbolic condition goes on this path.
func (x *Explorer) branch(c *Term) bool {
	if c.isConst() {
		return c.val != 0
	}
	i := len(x.trace)
	if i < len(x.script) {
		d := x.script[i]
		if d.Kind != 'b' {
			panic(engineError{fmt.Sprintf("script mismatch at %d: want branch, have %c", i, d.Kind)})
		}
		x.trace = append(x.trace, d)
		if !d.Forced {
			if d.Branch {
				x.addPC(c)
			} else {
				x.addPC(mkNot(c))
			}
			if x.model != nil {
				if v, ok := x.evalModel(c); !ok || v != d.Branch {
					x.model = nil
				}
			}
		}
		return d.Branch
	}
	x.noteSym()
	var side bool
	if r, dok := x.domDecide(c); dok {
		if r != 0 {
			x.domDecided++
			x.trace = append(x.trace, decision{Kind: 'b', Branch: r > 0, Forced: true})
			return r > 0
		}
		fv := c.freeVars()
		if len(fv) == 1 && !x.rel[fv[0].id] {
			// both sides feasible, no solver needed: the variable is constrained only by its domain
			x.domDecided++
			side = true
			if mv, ok := x.evalModel(c); ok {
				side = mv
			} else {
				x.model = nil
			}
			x.inst.Forks++
			alt := append(append([]decision(nil), x.trace...), decision{Kind: 'b', Branch: !side})
			x.pending = append(x.pending, alt)
			x.trace = append(x.trace, decision{Kind: 'b', Branch: side})
			if side {
				x.addPC(c)
			} else {
				x.addPC(mkNot(c))
			}
			return side
		}
	}
	mv, ok := x.evalModel(c)
	if ok {
		side = mv
		other := mkNot(c)
		if !side {
			other = c
		}
		save := x.model
		res, _ := x.check(x.pc, []*Term{other}, nil)
		x.model = save
		if res == Unknown {
			x.inst.Unknown++
		}
		if res == Unsat {
			x.trace = append(x.trace, decision{Kind: 'b', Branch: side, Forced: true})
			return side
		}
	} else {
		// no model: find out both
		rt := x.feasible(c, true)
		if rt == Unsat {
			x.trace = append(x.trace, decision{Kind: 'b', Branch: false, Forced: true})
			return false
		}
		// c feasible (model adopted if sat); is ¬c feasible too?
		save := x.model
		rf, _ := x.check(x.pc, []*Term{mkNot(c)}, nil)
		x.model = save
		if rf == Unknown {
			x.inst.Unknown++
		}
		if rf == Unsat {
			x.trace = append(x.trace, decision{Kind: 'b', Branch: true, Forced: true})
			return true
		}
		side = true
		if rt == Unknown {
			x.model = nil
		}
	}
	// both sides feasible: fork
	x.inst.Forks++
	alt := append(append([]decision(nil), x.trace...), decision{Kind: 'b', Branch: !side})
	x.pending = append(x.pending, alt)
	x.trace = append(x.trace, decision{Kind: 'b', Branch: side})
	if side {
		x.addPC(c)
	} else {
		x.addPC(mkNot(c))
	}
	return side
}

// choose forks n ways without consulting the solver.
func (x *Explorer) choose(n int) int {
	if n <= 0 {
		panic(pathEnd{"choose(0)"})
	}
	i := len(x.trace)
	if i < len(x.script) {
		d := x.script[i]
		if d.Kind != 'c' || d.N != n {
			panic(engineError{fmt.Sprintf("script mismatch at %d: want choose(%d), have %c/%d", i, n, d.Kind, d.N)})
		}
		x.trace = append(x.trace, d)
		return d.Pick
	}
	for k := n - 1; k >= 1; k-- {
		alt := append(append([]decision(nil), x.trace...), decision{Kind: 'c', N: n, Pick: k})
		x.pending = append(x.pending, alt)
	}
	if n > 1 {
		x.inst.Forks += n - 1
	}
	x.trace = append(x.trace, decision{Kind: 'c', N: n, Pick: 0})
	return 0
}

const maxConcretize = 130

// concretize picks a concrete value for t, forking over all feasible values.
func (x *Explorer) concretize(t *Term, what string) uint64 {
	if t.isConst() {
		return t.val
	}
	i := len(x.trace)
	var d decision
	if i < len(x.script) {
		d = x.script[i]
		if d.Kind != 'v' {
			panic(engineError{fmt.Sprintf("script mismatch at %d: want value, have %c", i, d.Kind)})
		}
	} else {
		d = decision{Kind: 'v', Find: true}
	}
	if d.Find {
		x.noteSym()
		// find a value different from all excluded ones
		excl := tTrue
		for _, e := range d.Excl {
			excl = mkAnd(excl, mkNot(mkEq(t, mkConst(t.sort, uint64(e)))))
		}
		var val uint64
		found := false
		if len(d.Excl) == 0 && x.model != nil {
			func() {
				defer func() {
					if recover() != nil {
						found = false
					}
				}()
				val = t.eval(x.model, map[int]uint64{})
				found = true
			}()
		}
		if !found {
			res, m := x.check(x.pc, []*Term{excl}, x.vars)
			switch res {
			case Unsat:
				panic(pathEnd{"concretize: exhausted"})
			case Unknown:
				x.inst.Unknown++
				panic(outOfReach{"concretize " + what + ": solver unknown"})
			}
			x.model = m
			val = t.eval(m, map[int]uint64{})
		}
		if len(d.Excl)+1 > maxConcretize {
			panic(outOfReach{fmt.Sprintf("concretize %s: more than %d values", what, maxConcretize)})
		}
		nexcl := append(append([]int64(nil), d.Excl...), int64(val))
		alt := append(append([]decision(nil), x.trace...), decision{Kind: 'v', Find: true, Excl: nexcl})
		x.pending = append(x.pending, alt)
		d = decision{Kind: 'v', Val: int64(val), Excl: d.Excl}
		if len(d.Excl) > 0 {
			x.inst.Forks++
		}
	}
	x.trace = append(x.trace, d)
	c := mkEq(t, mkConst(t.sort, uint64(d.Val)))
	x.addPC(c)
	if v, ok := x.evalModel(c); !ok || !v {
		x.model = nil
	}
	return uint64(d.Val)
}

func concretizeTerm(t *Term, what string) *Term {
	return mkConst(t.sort, I.x.concretize(t, what))
}

// concretizeIn picks a value of the signed int term t: every feasible value in [lo,hi] is a
// separate path; all values outside are represented by one path (the caller is about to panic).
func (x *Explorer) concretizeIn(t *Term, lo, hi int64, what string) int64 {
	if t.isConst() {
		return sx(t.sort, t.val)
	}
	in := mkAnd(mkCmp(OpSle, mkConst(t.sort, uint64(lo)), t), mkCmp(OpSle, t, mkConst(t.sort, uint64(hi))))
	if x.branch(in) {
		if hi-lo > 4096 {
			panic(outOfReach{"concretizeIn " + what + ": range too large"})
		}
		return sx(t.sort, x.concretize(t, what))
	}
	// outside: one representative
	if v, ok := x.modelValue(t); ok {
		return sx(t.sort, v)
	}
	return hi + 1
}

func (x *Explorer) modelValue(t *Term) (v uint64, ok bool) {
	if x.model == nil {
		res, m := x.check(x.pc, nil, x.vars)
		if res != Sat {
			return 0, false
		}
		x.model = m
	}
	defer func() {
		if recover() != nil {
			ok = false
		}
	}()
	return t.eval(x.model, map[int]uint64{}), true
}

// assume restricts the path to inputs satisfying c.
func (x *Explorer) assume(c *Term) {
	if c.isTrue() {
		return
	}
	if c.isFalse() {
		panic(pathEnd{"assume(false)"})
	}
	if v, ok := x.evalModel(c); ok && v {
		x.addPC(c)
		return
	}
	res := x.feasible(c, true)
	if res == Unsat {
		panic(pathEnd{"assumption infeasible"})
	}
	if res == Unknown {
		x.model = nil
	}
	x.addPC(c)
}

func (x *Explorer) noteSym() {
	if fr := I.curFrame; fr != nil && fr.fn != nil {
		x.symFns[fr.fn.String()] = true
	}
}

// newVar registers a fresh symbolic input.
func (x *Explorer) newVar(kind, tag string, s Sort, vs []uint64) *Term {
	if kind == "internal" {
		if t, ok := x.internal[tag]; ok {
			return t
		}
	}
	n := x.tagN[tag]
	x.tagN[tag] = n + 1
	name := tag
	if n > 0 {
		name = fmt.Sprintf("%s#%d", tag, n)
	}
	t := mkVar(name, s, vs)
	x.vars = append(x.vars, t)
	switch {
	case vs != nil && len(vs) <= maxVS:
		x.dom[t.id] = append([]uint64(nil), t.vs...)
	case s == SBV8:
		d := make([]uint64, 256)
		for i := range d {
			d[i] = uint64(i)
		}
		x.dom[t.id] = d
	case s == SBool:
		x.dom[t.id] = []uint64{0, 1}
	}
	if kind != "internal" {
		x.nd = append(x.nd, ndRecord{Kind: kind, Tag: tag, Term: t})
	} else {
		x.internal[tag] = t
	}
	if x.model != nil {
		if vs != nil && len(vs) > 0 {
			x.model[t.name] = vs[0]
		} else {
			x.model[t.name] = 0
		}
	}
	return t
}

// vector builds the replay vector from a model.
func (x *Explorer) vector(m map[string]uint64) []ReplayItem {
	var r []ReplayItem
	for _, n := range x.nd {
		it := ReplayItem{Kind: n.Kind, Tag: n.Tag, Val: n.Val}
		if n.Term != nil {
			v := m[n.Term.name]
			it.Val = sx(n.Term.sort, v)
			if n.Term.sort == SBool || n.Kind == "byte" {
				it.Val = int64(v)
			}
		}
		r = append(r, it)
	}
	return r
}

// fail handles a failed (or possibly failing) assertion. cond is the asserted condition
// (tFalse for panics). It reports a violation if pc ∧ ¬cond is satisfiable outside the known regions.
func (x *Explorer) fail(id, kind, detail string, cond *Term, site string) {
	x.inst.Asserts++
	neg := mkNot(cond)
	if neg.isFalse() {
		return
	}
	// regions applicable to this assertion: id prefix match on property happens in harness; all regions count
	notKnown := tTrue
	for _, k := range x.known {
		notKnown = mkAnd(notKnown, mkNot(k.cond))
	}
	q := mkAnd(neg, notKnown)
	if !q.isFalse() {
		var m map[string]uint64
		res := Unknown
		if v, ok := x.evalModel(q); ok && v {
			res, m = Sat, x.model
		} else {
			x.inst.AssertQ++
			res, m = x.check(x.pc, []*Term{q}, x.vars)
		}
		switch res {
		case Sat:
			v := &Violation{AssertID: id, Kind: kind, Detail: detail, Vector: x.vector(m), PanicSite: site}
			x.inst.Violations = append(x.inst.Violations, v)
		case Unknown:
			x.inst.Unknown++
		}
	}
	for _, k := range x.known {
		if _, seen := x.inst.KnownSeen[k.id]; seen {
			continue
		}
		q := mkAnd(neg, k.cond)
		if q.isFalse() {
			continue
		}
		x.inst.AssertQ++
		res, m := x.check(x.pc, []*Term{q}, x.vars)
		if res == Sat {
			x.inst.KnownSeen[k.id] = &Violation{AssertID: id, Kind: kind, Detail: detail, Vector: x.vector(m), Known: k.id, PanicSite: site}
		} else if res == Unknown {
			x.inst.Unknown++
		}
	}
}

func (x *Explorer) sampleInputs() string {
	m := x.model
	if m == nil {
		res, mm := x.check(x.pc, nil, x.vars)
		if res != Sat {
			return "(no model)"
		}
		m = mm
	}
	var parts []string
	for _, it := range x.vector(m) {
		parts = append(parts, fmt.Sprintf("%s=%d", it.Tag, it.Val))
	}
	return strings.Join(parts, " ")
}

func (x *Explorer) sampleVector() []ReplayItem {
	m := x.model
	if m == nil {
		res, mm := x.check(x.pc, nil, x.vars)
		if res != Sat {
			return nil
		}
		m = mm
	}
	return x.vector(m)
}

func sortedKeys(m map[string]bool) []string {
	var r []string
	for k := range m {
		r = append(r, k)
	}
	sort.Strings(r)
	return r
}

var debugPaths = os.Getenv("GOSYM_DEBUG") != ""
